package drv

import (
	"bufio"
	"encoding/json"
	"errors"
	"fmt"
	"io"
	"sort"

	"github.com/avfs/avfs"
	"github.com/avfs/avfs/idm/memidm"
)

// IdmCall is one abstract identity-manager call.
type IdmCall struct {
	Op    string `json:"op"`
	Name  string `json:"name"`
	Group string `json:"group"`
	Id    int    `json:"id"`
}

// IdmRes is its abstract result.
type IdmRes struct {
	Err   string `json:"err"`
	Name  string `json:"name"`
	Uid   int    `json:"uid"`
	Gid   int    `json:"gid"`
	Admin bool   `json:"admin"`
}

type idmGroupRow struct {
	Name string `json:"name"`
	Gid  int    `json:"gid"`
}

type idmUserRow struct {
	Name  string `json:"name"`
	Uid   int    `json:"uid"`
	Gid   int    `json:"gid"`
	Admin bool   `json:"admin"`
}

type idmUidRow struct {
	Uid  int    `json:"uid"`
	Name string `json:"name"`
}

// IdmTables is the answer table of all lookups.
type IdmTables struct {
	Groups []idmGroupRow `json:"groups"`
	Gids   []idmGroupRow `json:"gids"`
	Users  []idmUserRow  `json:"users"`
	Uids   []idmUidRow   `json:"uids"`
}

// IdmAlt is what an open deviation admits instead of the strict outcome.
type IdmAlt struct {
	Kf  string    `json:"kf"`
	Res IdmRes    `json:"res"`
	Tab IdmTables `json:"tab"`
}

// IdmEdge is one transition emitted by MemIdmSpec.
type IdmEdge struct {
	Hist []IdmCall `json:"hist"`
	Call IdmCall   `json:"call"`
	Res  IdmRes    `json:"res"`
	Tab  IdmTables `json:"tab"`
	Alt  []IdmAlt  `json:"alt"`
}

// IdmEvent is one line of a recorded identity-manager trace.
type IdmEvent struct {
	Tr   string    `json:"tr"`
	I    int       `json:"i"`
	Call IdmCall   `json:"call"`
	Res  IdmRes    `json:"res"`
	Tab  IdmTables `json:"tab"`
}

func idmErr(err error) string {
	if err == nil {
		return "ok"
	}

	var (
		e1 avfs.AlreadyExistsGroupError
		e2 avfs.AlreadyExistsUserError
		e3 avfs.UnknownGroupError
		e4 avfs.UnknownUserError
		e5 avfs.UnknownGroupIdError
		e6 avfs.UnknownUserIdError
	)

	switch {
	case errors.As(err, &e1):
		return "EEXISTG"
	case errors.As(err, &e2):
		return "EEXISTU"
	case errors.As(err, &e3):
		return "ENOG"
	case errors.As(err, &e4):
		return "ENOU"
	case errors.As(err, &e5):
		return "ENOGID"
	case errors.As(err, &e6):
		return "ENOUID"
	}

	return "OTHER:" + err.Error()
}

// IdmExec executes one call on an identity manager under a panic guard.
func IdmExec(idm avfs.IdentityMgr, c IdmCall) (res IdmRes) {
	res = IdmRes{Err: "ok", Uid: -1, Gid: -1}

	defer func() {
		if r := recover(); r != nil {
			res = IdmRes{Err: "PANIC", Uid: -1, Gid: -1}
		}
	}()

	grp := func(g avfs.GroupReader, err error) {
		res.Err = idmErr(err)
		if err == nil {
			res.Name, res.Gid = g.Name(), g.Gid()
		}
	}

	usr := func(u avfs.UserReader, err error) {
		res.Err = idmErr(err)
		if err == nil {
			res.Name, res.Uid, res.Gid, res.Admin = u.Name(), u.Uid(), u.Gid(), u.IsAdmin()
		}
	}

	switch c.Op {
	case "addgroup":
		grp(idm.AddGroup(c.Name))
	case "adduser":
		usr(idm.AddUser(c.Name, c.Group))
	case "delgroup":
		res.Err = idmErr(idm.DelGroup(c.Name))
	case "deluser":
		res.Err = idmErr(idm.DelUser(c.Name))
	case "lookupgroup":
		grp(idm.LookupGroup(c.Name))
	case "lookupgroupid":
		grp(idm.LookupGroupId(c.Id))
	case "lookupuser":
		usr(idm.LookupUser(c.Name))
	case "lookupuserid":
		usr(idm.LookupUserId(c.Id))
	default:
		res.Err = "UNKNOWNOP"
	}

	return res
}

// IdmProject asks every lookup for every pool name and every id that may have been issued.
func IdmProject(idm avfs.IdentityMgr, gnames, unames []string, maxID int) IdmTables {
	t := IdmTables{Groups: []idmGroupRow{}, Gids: []idmGroupRow{}, Users: []idmUserRow{}, Uids: []idmUidRow{}}
	ids := []int{0}

	for i := 1000; i <= maxID; i++ {
		ids = append(ids, i)
	}

	for _, n := range gnames {
		if r := IdmExec(idm, IdmCall{Op: "lookupgroup", Name: n}); r.Err == "ok" {
			t.Groups = append(t.Groups, idmGroupRow{Name: r.Name, Gid: r.Gid})
		}
	}

	for _, n := range unames {
		if r := IdmExec(idm, IdmCall{Op: "lookupuser", Name: n}); r.Err == "ok" {
			t.Users = append(t.Users, idmUserRow{Name: r.Name, Uid: r.Uid, Gid: r.Gid, Admin: r.Admin})
		}
	}

	for _, i := range ids {
		if r := IdmExec(idm, IdmCall{Op: "lookupgroupid", Id: i}); r.Err == "ok" {
			t.Gids = append(t.Gids, idmGroupRow{Name: r.Name, Gid: r.Gid})
		}

		if r := IdmExec(idm, IdmCall{Op: "lookupuserid", Id: i}); r.Err == "ok" {
			t.Uids = append(t.Uids, idmUidRow{Name: r.Name, Uid: r.Uid})
		}
	}

	return t
}

func (t IdmTables) canon() string {
	var out []string
	for _, r := range t.Groups {
		out = append(out, fmt.Sprintf("g:%s=%d", r.Name, r.Gid))
	}

	for _, r := range t.Gids {
		out = append(out, fmt.Sprintf("gi:%d=%s", r.Gid, r.Name))
	}

	for _, r := range t.Users {
		out = append(out, fmt.Sprintf("u:%s=%d/%d/%v", r.Name, r.Uid, r.Gid, r.Admin))
	}

	for _, r := range t.Uids {
		out = append(out, fmt.Sprintf("ui:%d=%s", r.Uid, r.Name))
	}

	sort.Strings(out)

	return fmt.Sprint(out)
}

// IdmReplay replays MemIdmSpec edges on real MemIdm instances. An edge conforms when result and lookup
// tables equal the strict outcome TLC computed; it is "explained" when they equal the outcome TLC computed
// for a deviation whose id is in open; anything else is written out as a trace for TLC to judge.
func IdmReplay(in io.Reader, out io.Writer, shard, nshard int, gnames, unames []string, maxID int, open map[string]bool) (edges, bad int, used map[string]int, err error) {
	sc := bufio.NewScanner(in)
	sc.Buffer(make([]byte, 1<<20), 1<<28)

	w := bufio.NewWriter(out)
	defer w.Flush()

	enc := json.NewEncoder(w)
	idx := -1
	used = map[string]int{}

	for sc.Scan() {
		idx++
		if idx%nshard != shard {
			continue
		}

		var e IdmEdge
		if err := DecodeTLC(sc.Bytes(), &e); err != nil {
			return edges, bad, used, err
		}

		edges++

		idm := memidm.New()

		var trace []IdmEvent

		tr := fmt.Sprintf("i%d", idx)

		for i, c := range e.Hist {
			r := IdmExec(idm, c)
			trace = append(trace, IdmEvent{Tr: tr, I: i + 1, Call: c, Res: r, Tab: IdmProject(idm, gnames, unames, maxID)})
		}

		res := IdmExec(idm, e.Call)
		tab := IdmProject(idm, gnames, unames, maxID)

		if res == e.Res && tab.canon() == e.Tab.canon() {
			continue
		}

		explained := false

		for _, a := range e.Alt {
			if open[a.Kf] && res == a.Res && tab.canon() == a.Tab.canon() {
				used[a.Kf]++
				explained = true

				break
			}
		}

		if explained {
			continue
		}

		bad++
		trace = append(trace, IdmEvent{Tr: tr, I: len(trace) + 1, Call: e.Call, Res: res, Tab: tab})

		for _, ev := range trace {
			if err := enc.Encode(ev); err != nil {
				return edges, bad, used, err
			}
		}
	}

	return edges, bad, used, sc.Err()
}

// IdmHistory is one concurrent execution: seeded calls, then one call per goroutine, free running.
type IdmHistory struct {
	Id    int       `json:"id"`
	Init  []IdmCall `json:"init"`
	Calls []IdmCall `json:"calls"`
	Res   []IdmRes  `json:"res"`
	Tab   IdmTables `json:"tab"`
	Count int       `json:"count"`
}
