//go:build verif

package drv

import (
	"bufio"
	"fmt"
	"io"
	"math/rand"
)

func ap(parts ...string) Path { return Path{Abs: true, Parts: append([]string{WorkDir}, parts...)} }

func mk(op string, p Path) Call {
	c := Call{Op: op, P: p}
	normCall(&c)

	return c
}

// SchedTemplates are the call templates of the concurrent programs: namespace calls on overlapping names
// over two directories (/w and /w/d) of the set-up tree  /w/a (file), /w/d (dir), /w/d/a (file).
func SchedTemplates(sym bool) (init []Call, templ []Call) {
	wf := mk("writefile", ap("a"))
	wf.Data, wf.Perm = []int{1}, 0o644
	wf2 := mk("writefile", ap("d", "a"))
	wf2.Data, wf2.Perm = []int{2}, 0o644
	md := mk("mkdir", ap("d"))
	md.Perm = 0o755
	// a second hard link of /w/d/a and an empty directory: a name taken over by a multiply linked file, or by a
	// directory moved onto an empty one, shows in link counts and lost content when a call acts on a stale node
	ln := mk("link", ap("d", "a"))
	ln.Q = ap("d", "l")
	me := mk("mkdir", ap("e"))
	me.Perm = 0o755
	init = []Call{wf, md, wf2, ln, me}

	with := func(c Call, f func(*Call)) Call { f(&c); return c }
	excl := []string{"RDWR", "CREATE", "EXCL"}

	templ = []Call{
		with(mk("mkdir", ap("b")), func(c *Call) { c.Perm = 0o755 }),
		with(mk("mkdir", ap("d", "b")), func(c *Call) { c.Perm = 0o755 }),
		with(mk("mkdirall", ap("d", "b", "c")), func(c *Call) { c.Perm = 0o755 }),
		with(mk("openclose", ap("b")), func(c *Call) { c.Flag, c.Perm = excl, 0o644 }),
		with(mk("openclose", ap("d", "b")), func(c *Call) { c.Flag, c.Perm = excl, 0o644 }),
		with(mk("writefile", ap("a")), func(c *Call) { c.Data, c.Perm = []int{3, 3}, 0o644 }),
		with(mk("writefile", ap("b")), func(c *Call) { c.Data, c.Perm = []int{2}, 0o644 }),
		mk("remove", ap("a")),
		mk("remove", ap("d", "a")),
		mk("remove", ap("d")),
		mk("remove", ap("e")),
		mk("removeall", ap("d")),
		with(mk("rename", ap("a")), func(c *Call) { c.Q = ap("b") }),
		with(mk("rename", ap("a")), func(c *Call) { c.Q = ap("d", "b") }),
		with(mk("rename", ap("d", "a")), func(c *Call) { c.Q = ap("b") }),
		with(mk("rename", ap("d", "a")), func(c *Call) { c.Q = ap("a") }),
		with(mk("rename", ap("d")), func(c *Call) { c.Q = ap("e") }),
		with(mk("link", ap("a")), func(c *Call) { c.Q = ap("b") }),
		with(mk("link", ap("a")), func(c *Call) { c.Q = ap("d", "b") }),
		with(mk("link", ap("d", "a")), func(c *Call) { c.Q = ap("b") }),
		with(mk("truncate", ap("a")), func(c *Call) { c.N = 0 }),
		with(mk("chmod", ap("a")), func(c *Call) { c.Perm = 0o600 }),
		mk("createtemp", ap()),
		mk("mkdirtemp", ap()),
		mk("readdir", ap()),
		mk("stat", ap("b")),
	}

	if sym {
		templ = append(templ,
			with(mk("symlink", ap("b")), func(c *Call) { c.Q = Path{Parts: []string{"a"}} }),
			with(mk("symlink", ap("d", "b")), func(c *Call) { c.Q = Path{Parts: []string{"..", "a"}} }))
	}

	return init, templ
}

// SchedPrograms builds the programs: every unordered pair of templates (two goroutines, one call each), a
// seed-chosen sample of triples, and pairs of two-call goroutines.
func SchedPrograms(sym bool, seed int64, sampleTriples, samplePairs2 int) []Program {
	init, t := SchedTemplates(sym)
	r := rand.New(rand.NewSource(seed))

	var ps []Program

	for i := range t {
		for j := i; j < len(t); j++ {
			ps = append(ps, Program{Name: fmt.Sprintf("p2-%d-%d", i, j), Init: init, Procs: [][]Call{{t[i]}, {t[j]}}})
		}
	}

	for k := 0; k < sampleTriples; k++ {
		a, b, c := r.Intn(len(t)), r.Intn(len(t)), r.Intn(len(t))
		ps = append(ps, Program{Name: fmt.Sprintf("p3-%d-%d-%d", a, b, c), Init: init, Procs: [][]Call{{t[a]}, {t[b]}, {t[c]}}})
	}

	for k := 0; k < samplePairs2; k++ {
		a, b, c, d := r.Intn(len(t)), r.Intn(len(t)), r.Intn(len(t)), r.Intn(len(t))
		ps = append(ps, Program{Name: fmt.Sprintf("p22-%d-%d-%d-%d", a, b, c, d), Init: init, Procs: [][]Call{{t[a], t[b]}, {t[c], t[d]}}})
	}

	return ps
}

// SchedStats summarises an exploration.
type SchedStats struct {
	Programs, Runs, Histories, Deadlocks, Panics, TmpDups int
}

// ExploreAll explores the programs whose index is congruent to shard modulo nshard and writes the distinct histories.
func ExploreAll(f *Factory, progs []Program, names []string, bound, maxRuns int, seed int64, shard, nshard int, out io.Writer) (SchedStats, error) {
	var st SchedStats

	w := bufio.NewWriter(out)
	defer w.Flush()

	r := rand.New(rand.NewSource(seed))
	next := shard*1_000_000 + 1

	for i := range progs {
		if i%nshard != shard {
			continue
		}

		hs, runs, err := Explore(f, &progs[i], names, bound, maxRuns, r)
		if err != nil {
			return st, fmt.Errorf("%s: %w", progs[i].Name, err)
		}

		st.Programs++
		st.Runs += runs
		st.Histories += len(hs)

		for _, h := range hs {
			if h.Deadlock {
				st.Deadlocks++
			}

			if h.Panic {
				st.Panics++
			}

			if h.TmpDup {
				st.TmpDups++
			}
		}

		if err := WriteHistories(w, hs, next); err != nil {
			return st, err
		}

		next += len(hs)
	}

	return st, nil
}
