package drv

import (
	"bufio"
	"encoding/json"
	"io"
	"sort"
	"strings"

	"github.com/avfs/avfs"
	"github.com/avfs/avfs/vfs/memfs"
)

// VolCall is one call of the volume specification.
type VolCall struct {
	Op  string `json:"op"`
	Vol string `json:"vol"`
	Arg string `json:"arg"`
}

// VolRes is its abstract result.
type VolRes struct {
	Err   string   `json:"err"`
	List  []string `json:"list"`
	Names []string `json:"names"`
}

type volRow struct {
	Vol   string   `json:"vol"`
	Names []string `json:"names"`
}

// VolEdge is one transition emitted by Volumes.tla.
type VolEdge struct {
	Os   string    `json:"os"`
	Hist []VolCall `json:"hist"`
	Call VolCall   `json:"call"`
	Res  VolRes    `json:"res"`
	All  []volRow  `json:"all"`
}

func volErr(err error) string {
	switch {
	case err == nil:
		return "ok"
	case strings.Contains(err.Error(), avfs.ErrVolumeWindows.Error()):
		return "EVOLWIN"
	case strings.Contains(err.Error(), avfs.ErrVolumeAlreadyExists.Error()):
		return "EVOLEXISTS"
	case strings.Contains(err.Error(), avfs.ErrVolumeNameInvalid.Error()):
		return "EVOLINVALID"
	}

	return "FAIL"
}

func volExec(vfs *memfs.MemFS, c VolCall) (r VolRes) {
	r = VolRes{Err: "ok", List: []string{}, Names: []string{}}

	defer func() {
		if rec := recover(); rec != nil {
			r.Err = "PANIC"
		}
	}()

	switch c.Op {
	case "voladd":
		r.Err = volErr(vfs.VolumeAdd(c.Arg))
	case "voldel":
		r.Err = volErr(vfs.VolumeDelete(c.Arg))
	case "vollist":
		r.List = append(r.List, vfs.VolumeList()...)
		sort.Strings(r.List)
	case "mkdir":
		if err := vfs.Mkdir(c.Vol+"\\"+c.Arg, 0o755); err != nil {
			r.Err = "FAIL"
		}
	case "readdir":
		des, err := vfs.ReadDir(c.Vol + "\\")
		if err != nil {
			r.Err = "FAIL"
		}

		for _, de := range des {
			r.Names = append(r.Names, de.Name())
		}
	}

	return r
}

func sameStrs(a, b []string) bool {
	x, y := append([]string{}, a...), append([]string{}, b...)
	sort.Strings(x)
	sort.Strings(y)

	return strings.Join(x, "\x00") == strings.Join(y, "\x00")
}

// VolReplay replays Volumes.tla edges on Windows-typed and Linux-typed MemFS instances and writes the
// edges that do not conform.
func VolReplay(in io.Reader, out io.Writer) (edges, bad int, err error) {
	sc := bufio.NewScanner(in)
	sc.Buffer(make([]byte, 1<<20), 1<<26)

	enc := json.NewEncoder(out)

	for sc.Scan() {
		var e VolEdge
		if err := DecodeTLC(sc.Bytes(), &e); err != nil {
			return edges, bad, err
		}

		edges++

		ost := avfs.OsLinux
		if e.Os == "windows" {
			ost = avfs.OsWindows
		}

		vfs := memfs.NewWithOptions(&memfs.Options{OSType: ost})
		for _, c := range e.Hist {
			volExec(vfs, c)
		}

		r := volExec(vfs, e.Call)
		ok := r.Err == e.Res.Err && sameStrs(r.List, e.Res.List)

		if e.Call.Op == "readdir" && r.Err == "ok" {
			// the default C: volume carries the system directories of a fresh MemFS
			if e.Call.Vol != "C:" {
				ok = ok && sameStrs(r.Names, e.Res.Names)
			} else {
				for _, n := range e.Res.Names {
					found := false
					for _, m := range r.Names {
						found = found || m == n
					}

					ok = ok && found
				}
			}
		}

		// the complete volume table afterwards
		got := volExec(vfs, VolCall{Op: "vollist"})

		var want []string
		for _, row := range e.All {
			want = append(want, row.Vol)

			if row.Vol != "C:" {
				rd := volExec(vfs, VolCall{Op: "readdir", Vol: row.Vol})
				ok = ok && rd.Err == "ok" && sameStrs(rd.Names, row.Names)
			}
		}

		ok = ok && sameStrs(got.List, want)

		if !ok {
			bad++
			_ = enc.Encode(map[string]any{"edge": e, "got": r, "vols": got.List})
		}
	}

	return edges, bad, sc.Err()
}
