package drv

import (
	"bufio"
	"encoding/json"
	"fmt"
	"io"
	"path/filepath"
	"strings"

	"github.com/avfs/avfs"
	"github.com/avfs/avfs/vfs/memfs"

	"verif/harness/winref"
)

type lexOne struct {
	Os        string     `json:"os"`
	S         []string   `json:"s"`
	Clean     []string   `json:"clean"`
	IsAbs     bool       `json:"isabs"`
	Vol       []string   `json:"vol"`
	FromSlash []string   `json:"fromslash"`
	ToSlash   []string   `json:"toslash"`
	Dir       []string   `json:"dir"`
	Base      []string   `json:"base"`
	SplitDir  []string   `json:"splitdir"`
	SplitFile []string   `json:"splitfile"`
	Parts     [][]string `json:"parts"`
}

type lexTwo struct {
	A      []string `json:"a"`
	B      []string `json:"b"`
	Join   []string `json:"join"`
	Rel    []string `json:"rel"`
	RelErr bool     `json:"relerr"`
	WinDom bool     `json:"windom"`
}

type lexLine struct {
	T  string          `json:"t"`
	R  json.RawMessage `json:"r"`
	P  []string        `json:"p"`
	N  []string        `json:"n"`
	M  bool            `json:"m"`
	LM string          `json:"lm"` // full Match specification, Linux flavour: "true" | "false" | "ERR"
	WM string          `json:"wm"` // ... Windows flavour
}

// LexFinding is one disagreement.
type LexFinding struct {
	Kind string `json:"kind"` // "impl" (avfs differs from the specification) | "spec" (the reference library differs from the specification)
	Os   string `json:"os"`
	Fn   string `json:"fn"`
	In   string `json:"in"`
	Want string `json:"want"`
	Got  string `json:"got"`
}

func cat(s []string) string { return strings.Join(s, "") }

// LexReplay compares the lexical functions of Linux-typed and Windows-typed MemFS instances (generic
// implementation: the driver is built with avfs_setostype) and of the reference libraries with the
// tables TLC computed from Lex.tla.
func LexReplay(in io.Reader, out io.Writer) (lines, evals int, err error) {
	lin := memfs.NewWithOptions(&memfs.Options{OSType: avfs.OsLinux})
	win := memfs.NewWithOptions(&memfs.Options{OSType: avfs.OsWindows})

	if win.OSType() != avfs.OsWindows {
		return 0, 0, fmt.Errorf("a Windows-typed MemFS cannot be constructed (build with avfs_setostype)")
	}

	enc := json.NewEncoder(out)
	report := func(kind, os, fn, in, want, got string) {
		if want != got {
			_ = enc.Encode(LexFinding{Kind: kind, Os: os, Fn: fn, In: in, Want: want, Got: got})
		}
	}

	guard := func(os, fn, in string, f func() string) (res string) {
		defer func() {
			if r := recover(); r != nil {
				res = fmt.Sprintf("PANIC(%v)", r)
			}
		}()

		return f()
	}

	sc := bufio.NewScanner(in)
	sc.Buffer(make([]byte, 1<<20), 1<<26)

	for sc.Scan() {
		var l lexLine
		if err := DecodeTLC(sc.Bytes(), &l); err != nil {
			return lines, evals, err
		}

		lines++

		switch l.T {
		case "one":
			var r lexOne
			if err := json.Unmarshal(l.R, &r); err != nil {
				return lines, evals, err
			}

			s := cat(r.S)

			var vfs avfs.VFS = lin

			ref := map[string]func() string{
				"Clean": func() string { return filepath.Clean(s) }, "IsAbs": func() string { return fmt.Sprint(filepath.IsAbs(s)) },
				"VolumeName": func() string { return filepath.VolumeName(s) }, "FromSlash": func() string { return filepath.FromSlash(s) },
				"ToSlash": func() string { return filepath.ToSlash(s) }, "Dir": func() string { return filepath.Dir(s) },
				"Base":  func() string { return filepath.Base(s) },
				"Split": func() string { d, f := filepath.Split(s); return d + "|" + f },
			}

			if r.Os == "windows" {
				vfs = win
				ref = map[string]func() string{
					"Clean": func() string { return winref.Clean(s) }, "IsAbs": func() string { return fmt.Sprint(winref.IsAbs(s)) },
					"VolumeName": func() string { return winref.VolumeName(s) }, "FromSlash": func() string { return winref.FromSlash(s) },
					"ToSlash": func() string { return winref.ToSlash(s) }, "Dir": func() string { return winref.Dir(s) },
					"Base":  func() string { return winref.Base(s) },
					"Split": func() string { d, f := winref.Split(s); return d + "|" + f },
				}
			}

			impl := map[string]func() string{
				"Clean": func() string { return vfs.Clean(s) }, "IsAbs": func() string { return fmt.Sprint(vfs.IsAbs(s)) },
				"VolumeName": func() string { return avfs.VolumeName(vfs, s) }, "FromSlash": func() string { return vfs.FromSlash(s) },
				"ToSlash": func() string { return vfs.ToSlash(s) }, "Dir": func() string { return vfs.Dir(s) },
				"Base":  func() string { return vfs.Base(s) },
				"Split": func() string { d, f := vfs.Split(s); return d + "|" + f },
			}
			want := map[string]string{
				"Clean": cat(r.Clean), "IsAbs": fmt.Sprint(r.IsAbs), "VolumeName": cat(r.Vol), "FromSlash": cat(r.FromSlash),
				"ToSlash": cat(r.ToSlash), "Dir": cat(r.Dir), "Base": cat(r.Base), "Split": cat(r.SplitDir) + "|" + cat(r.SplitFile),
			}

			for fn, w := range want {
				evals++
				report("spec", r.Os, fn, s, w, guard(r.Os, fn, s, ref[fn]))
				report("impl", r.Os, fn, s, w, guard(r.Os, fn, s, impl[fn]))
			}

			if len(r.Parts) > 0 {
				evals++
				got := guard(r.Os, "PathIterator", s, func() string {
					var parts []string

					pi := avfs.NewPathIterator[*memfs.MemFS](lin, s)
					for pi.Next() {
						if pi.Left()+pi.Part()+pi.Right() != s {
							return "Left+Part+Right=" + pi.Left() + pi.Part() + pi.Right()
						}

						parts = append(parts, pi.Part())
					}

					return strings.Join(parts, "|")
				})

				var wp []string
				for _, p := range r.Parts {
					wp = append(wp, cat(p))
				}

				report("impl", r.Os, "PathIterator", s, strings.Join(wp, "|"), got)
			}
		case "two":
			var r lexTwo
			if err := json.Unmarshal(l.R, &r); err != nil {
				return lines, evals, err
			}

			a, b := cat(r.A), cat(r.B)
			evals += 2
			report("spec", "linux", "Join", a+"|"+b, cat(r.Join), filepath.Join(a, b))
			report("impl", "linux", "Join", a+"|"+b, cat(r.Join), guard("linux", "Join", a, func() string { return lin.Join(a, b) }))

			relS := func(p string, err error) string {
				if err != nil {
					return "ERR"
				}

				return p
			}
			wantRel := cat(r.Rel)

			if r.RelErr {
				wantRel = "ERR"
			}

			report("spec", "linux", "Rel", a+"|"+b, wantRel, relS(filepath.Rel(a, b)))
			report("impl", "linux", "Rel", a+"|"+b, wantRel, guard("linux", "Rel", a, func() string { return relS(lin.Rel(a, b)) }))
			// the Windows flavour of the two-argument functions is compared with the retargeted toolchain code
			// directly (Lex.tla specifies them for Linux only)
			if !r.WinDom {
				continue
			}

			evals += 2
			report("impl", "windows", "Join", a+"|"+b, winref.Join(a, b), guard("windows", "Join", a, func() string { return win.Join(a, b) }))
			report("impl", "windows", "Rel", a+"|"+b, relS(winref.Rel(a, b)), guard("windows", "Rel", a, func() string { return relS(win.Rel(a, b)) }))
		case "match":
			p, n := cat(l.P), cat(l.N)
			ms := func(m bool, err error) string {
				if err != nil {
					return "ERR"
				}

				return fmt.Sprint(m)
			}
			evals += 2
			// the reference libraries validate the specification's tables first, then avfs is compared with the tables
			report("spec", "linux", "Match", p+"|"+n, l.LM, ms(filepath.Match(p, n)))
			report("spec", "windows", "Match", p+"|"+n, l.WM, ms(winref.Match(p, n)))
			report("impl", "linux", "Match", p+"|"+n, l.LM, guard("linux", "Match", p, func() string { return ms(lin.Match(p, n)) }))
			report("impl", "windows", "Match", p+"|"+n, l.WM, guard("windows", "Match", p, func() string { return ms(win.Match(p, n)) }))
		}
	}

	return lines, evals, sc.Err()
}
