package drv

import (
	"encoding/json"
	"fmt"
	"io"
	"math/rand"
	"sync"

	"github.com/avfs/avfs/idm/memidm"
)

// IdmConcurrent runs iters free-running concurrent programs (nproc goroutines, one call each, started
// together) on fresh MemIdm instances and writes the distinct histories observed.
func IdmConcurrent(seed int64, iters, nproc int, gnames, unames []string, maxID int, out io.Writer) (int, error) {
	r := rand.New(rand.NewSource(seed))

	var templ []IdmCall

	for _, n := range gnames {
		templ = append(templ, IdmCall{Op: "addgroup", Name: n}, IdmCall{Op: "delgroup", Name: n}, IdmCall{Op: "lookupgroup", Name: n})
	}

	for _, n := range unames {
		templ = append(templ, IdmCall{Op: "deluser", Name: n}, IdmCall{Op: "lookupuser", Name: n})

		for _, g := range gnames {
			templ = append(templ, IdmCall{Op: "adduser", Name: n, Group: g})
		}
	}

	inits := [][]IdmCall{
		{},
		{{Op: "addgroup", Name: gnames[0]}},
		{{Op: "addgroup", Name: gnames[0]}, {Op: "adduser", Name: unames[0], Group: gnames[0]}},
	}

	seen := map[string]*IdmHistory{}

	var order []string

	for it := 0; it < iters; it++ {
		init := inits[r.Intn(len(inits))]
		calls := make([]IdmCall, nproc)

		for i := range calls {
			calls[i] = templ[r.Intn(len(templ))]
		}

		idm := memidm.New()
		for _, c := range init {
			IdmExec(idm, c)
		}

		res := make([]IdmRes, nproc)

		var wg, ready sync.WaitGroup

		start := make(chan struct{})

		for i := range calls {
			wg.Add(1)
			ready.Add(1)

			go func(i int) {
				defer wg.Done()
				ready.Done()
				<-start
				res[i] = IdmExec(idm, calls[i])
			}(i)
		}

		ready.Wait()
		close(start)
		wg.Wait()

		h := &IdmHistory{Init: init, Calls: calls, Res: res, Count: 1,
			Tab: IdmProject(idm, append([]string{"root"}, gnames...), append([]string{"root"}, unames...), maxID)}
		if h.Init == nil {
			h.Init = []IdmCall{}
		}

		key := fmt.Sprint(init, calls, res, h.Tab.canon())
		if old, ok := seen[key]; ok {
			old.Count++

			continue
		}

		h.Id = len(seen) + 1
		seen[key] = h
		order = append(order, key)
	}

	enc := json.NewEncoder(out)
	for _, k := range order {
		if err := enc.Encode(seen[k]); err != nil {
			return 0, err
		}
	}

	return len(order), nil
}
