//go:build verif

package drv

import (
	"encoding/json"
	"fmt"
	"io"
	"math/rand"
	"sort"
	"strings"

	"github.com/avfs/avfs"
)

// Program is a small concurrent program: sequential set-up, then one call list per goroutine.
type Program struct {
	Name  string   `json:"name"`
	Init  []Call   `json:"init"`
	Procs [][]Call `json:"procs"`
}

// HistCall is one call of a recorded concurrent history.
type HistCall struct {
	G    int  `json:"g"`
	I    int  `json:"i"`
	Call Call `json:"call"`
	Res  Res  `json:"res"`
}

// History is one recorded concurrent execution, as Lin.tla judges it.
type History struct {
	Id       int        `json:"id"`
	Prog     string     `json:"prog"`
	Fs       string     `json:"fs"`
	Init     []Call     `json:"init"`
	Calls    []HistCall `json:"calls"`
	Rt       [][]int    `json:"rt"` // [a, b]: call a (1-based index in Calls) returned before call b was issued
	Final    []Entry    `json:"final"`
	Inv      string     `json:"inv"`
	Srt      bool       `json:"srt"`
	Deadlock bool       `json:"deadlock"`
	Panic    bool       `json:"panic"`
	Sched    []int      `json:"sched"`
	Count    int        `json:"count"`
	TmpDup   bool       `json:"tmpdup"` // two CreateTemp/MkdirTemp calls were handed the same name
}

// runOnce executes the program once under the scheduler with the given choice function.
func runOnce(f *Factory, p *Program, names []string, choose func(k int, enabled []int, prev int) int) (History, SchedResult, error) {
	h := History{Prog: p.Name, Fs: f.Target, Init: p.Init, Srt: true, Inv: "ok"}

	base, err := f.New()
	if err != nil {
		return h, SchedResult{}, err
	}

	for _, c := range p.Init {
		normCall(&c)

		if r := base.Exec(c); r.Err != "ok" {
			return h, SchedResult{}, fmt.Errorf("set-up call %s %s failed: %s", c.Op, c.P.Render(), r.Err)
		}
	}

	// every goroutine works through its own session: MemFS through its own Sub("/") view (as the property
	// prescribes), OrefaFS shares the file system
	sess := make([]*Session, len(p.Procs))

	for g := range p.Procs {
		s := &Session{Inline: true, Target: f.Target, FS: base.FS, NoIdm: base.NoIdm, NoSym: base.NoSym, NoRootList: base.NoRootList, Tmp: map[string]string{}}

		if strings.HasPrefix(f.Target, "memfs") {
			v, err := base.FS.Sub("/")
			if err != nil {
				return h, SchedResult{}, err
			}

			s.FS = v
		}

		sess[g] = s
	}

	type rec struct {
		start, end int
		res        Res
		name       string
	}

	recs := make([][]rec, len(p.Procs))
	clock := 0
	bodies := make([]func(), len(p.Procs))

	for g := range p.Procs {
		g := g
		recs[g] = make([]rec, len(p.Procs[g]))
		bodies[g] = func() {
			for i, c := range p.Procs[g] {
				normCall(&c)
				clock++ // only one goroutine runs at a time
				recs[g][i].start = clock
				before := len(sess[g].Tmp)
				known := map[string]bool{}

				for real := range sess[g].Tmp {
					known[real] = true
				}

				recs[g][i].res = sess[g].Exec(c)
				clock++
				recs[g][i].end = clock

				if len(sess[g].Tmp) > before {
					for real := range sess[g].Tmp {
						if !known[real] {
							recs[g][i].name = real
						}
					}
				}
			}
		}
	}

	sr := RunScheduled(bodies, choose)
	h.Deadlock = sr.Deadlock
	h.Sched = sr.Steps

	idx := map[[2]int]int{}      // last history call of a program call
	idxFirst := map[[2]int]int{} // first history call of a program call

	seenTmp := map[string]bool{}
	tmpClock := map[string]int{}

	for g := range p.Procs {
		pos := 0

		for i, c := range p.Procs[g] {
			normCall(&c)
			r := recs[g][i]

			if r.end == 0 { // never returned (deadlock)
				r.res = NewRes("DEADLOCK")
			}

			if r.res.Err == "PANIC" {
				h.Panic = true
			}

			if (c.Op == "createtemp" || c.Op == "mkdirtemp") && r.res.Err == "ok" {
				if seenTmp[r.name] {
					h.TmpDup = true
				}

				seenTmp[r.name] = true
				tmpClock[r.name] = r.end
				r.res.Names = []string{}
			}

			pos++
			idxFirst[[2]int{g, i}] = len(h.Calls) + 1

			if c.Op == "writefile" && r.res.Err == "ok" {
				// WriteFile is open(O_WRONLY|O_CREATE|O_TRUNC) + write + close, as in package os: other calls may
				// observe the file between the two steps, so the history shows them as two calls.
				oc := c
				oc.Op, oc.Flag, oc.Data = "openclose", []string{"WRONLY", "CREATE", "TRUNC"}, []int{}
				h.Calls = append(h.Calls, HistCall{G: g + 1, I: pos, Call: oc, Res: NewRes("ok")})
				pos++
			}

			h.Calls = append(h.Calls, HistCall{G: g + 1, I: pos, Call: c, Res: r.res})
			idx[[2]int{g, i}] = len(h.Calls)
		}
	}

	h.Rt = [][]int{}

	for g1 := range p.Procs {
		for i1 := range p.Procs[g1] {
			for g2 := range p.Procs {
				for i2 := range p.Procs[g2] {
					a, b := recs[g1][i1], recs[g2][i2]
					if g1 != g2 && a.end != 0 && b.start != 0 && a.end < b.start {
						h.Rt = append(h.Rt, []int{idx[[2]int{g1, i1}], idxFirst[[2]int{g2, i2}]})
					}
				}
			}
		}
	}

	if !h.Deadlock && !h.Panic {
		// temporary names are random: the projection names them in listing order
		all := &Session{Target: f.Target, FS: base.FS, NoIdm: base.NoIdm, NoRootList: base.NoRootList, Check: base.Check, Tmp: map[string]string{}}

		var tmps []string
		for n := range seenTmp {
			tmps = append(tmps, n)
		}

		// in the order the calls returned, as the sequential specification numbers them
		sort.Slice(tmps, func(a, b int) bool { return tmpClock[tmps[a]] < tmpClock[tmps[b]] })

		for _, n := range tmps {
			all.Tmp[n] = "~"
		}

		// a listing made by one goroutine may show the temporary names created by another
		for k := range h.Calls {
			for j, n := range h.Calls[k].Res.Names {
				if seenTmp[n] || strings.HasPrefix(n, "~") {
					h.Calls[k].Res.Names[j] = "~"
				}
			}
		}

		snap := all.Project(names)
		h.Final, h.Srt = snap.Post, snap.Srt

		if all.Check != nil {
			h.Inv = all.Check()
		}
	} else {
		h.Final = []Entry{}
	}

	_ = avfs.ErrPermDenied

	return h, sr, nil
}

// Explore enumerates the schedules of the program (stateless depth-first search over the choices at lock
// acquisitions, at most bound preemptions, at most maxRuns executions) and returns the distinct histories.
func Explore(f *Factory, p *Program, names []string, bound, maxRuns int, r *rand.Rand) ([]History, int, error) {
	type item struct {
		prefix []int
	}

	// schedules are visited in the order of their number of preemptions (all schedules without preemption,
	// then those with one, ...), so that a cut by maxRuns drops the most contrived interleavings first
	buckets := make([][]item, bound+1)
	buckets[0] = []item{{}}
	seen := map[string]*History{}

	var order []string

	runs := 0
	visited := map[string]bool{}

	pop := func() (item, bool) {
		for b := range buckets {
			if n := len(buckets[b]); n > 0 {
				k := n - 1
				if r != nil {
					k = r.Intn(n) // seed-dependent order inside a bucket (matters only when maxRuns cuts the search)
				}

				it := buckets[b][k]
				buckets[b][k] = buckets[b][n-1]
				buckets[b] = buckets[b][:n-1]

				return it, true
			}
		}

		return item{}, false
	}

	for runs < maxRuns {
		it, ok := pop()
		if !ok {
			break
		}

		key := fmt.Sprint(it.prefix)
		if visited[key] {
			continue
		}

		visited[key] = true
		h, sr, err := runOnce(f, p, names, func(k int, enabled []int, prev int) int {
			if k < len(it.prefix) {
				for _, g := range enabled {
					if g == it.prefix[k] {
						return g
					}
				}
			}

			// default policy: keep running the same goroutine (no preemption), else the lowest enabled one
			for _, g := range enabled {
				if g == prev {
					return g
				}
			}

			return enabled[0]
		})
		if err != nil {
			return nil, runs, err
		}

		runs++

		hk, _ := json.Marshal([]any{h.Calls, h.Final, h.Inv, h.Deadlock, h.Panic, h.TmpDup})
		if old, ok := seen[string(hk)]; ok {
			old.Count++
		} else {
			h.Count = 1
			hh := h
			seen[string(hk)] = &hh
			order = append(order, string(hk))
		}

		// branch: at every decision beyond the prefix, every other enabled goroutine
		for k := len(it.prefix); k < len(sr.Steps); k++ {
			if len(sr.Choices[k]) < 2 {
				continue
			}

			for _, g := range sr.Choices[k] {
				if g == sr.Steps[k] {
					continue
				}

				np := append(append([]int{}, sr.Steps[:k]...), g)

				pc := preemptions(np, sr.Choices)
				if pc > bound {
					continue
				}

				buckets[pc] = append(buckets[pc], item{prefix: np})
			}
		}
	}

	var out []History
	for _, k := range order {
		out = append(out, *seen[k])
	}

	return out, runs, nil
}

// preemptions counts the decisions at which the running goroutine was still enabled but another one was chosen.
func preemptions(steps []int, choices [][]int) int {
	n := 0

	for k := 1; k < len(steps) && k < len(choices); k++ {
		if steps[k] == steps[k-1] {
			continue
		}

		for _, g := range choices[k] {
			if g == steps[k-1] {
				n++

				break
			}
		}
	}

	return n
}

// WriteHistories writes histories as ndjson with consecutive ids starting at first.
func WriteHistories(w io.Writer, hs []History, first int) error {
	enc := json.NewEncoder(w)

	for i := range hs {
		hs[i].Id = first + i
		if err := enc.Encode(hs[i]); err != nil {
			return err
		}
	}

	return nil
}

// ReplayHistory rebuilds the program of a recorded history (one goroutine per g, calls in order i; the synthetic
// first half of a WriteFile is dropped) and runs it again: under the recorded schedule when there is one,
// otherwise free running `runs` times. It returns the distinct histories observed.
func ReplayHistory(f *Factory, h *History, names []string, runs int) ([]History, error) {
	ng := 0
	for _, c := range h.Calls {
		if c.G > ng {
			ng = c.G
		}
	}

	p := Program{Name: h.Prog, Init: h.Init, Procs: make([][]Call, ng)}

	for g := 1; g <= ng; g++ {
		var cs []HistCall

		for _, c := range h.Calls {
			if c.G == g {
				cs = append(cs, c)
			}
		}

		sort.Slice(cs, func(a, b int) bool { return cs[a].I < cs[b].I })

		for k, c := range cs {
			// the open half of a successful WriteFile (see runOnce) is not a call of the program
			if c.Call.Op == "openclose" && k+1 < len(cs) && cs[k+1].Call.Op == "writefile" &&
				cs[k+1].Call.P.Render() == c.Call.P.Render() && strings.Join(c.Call.Flag, "|") == "WRONLY|CREATE|TRUNC" {
				continue
			}

			p.Procs[g-1] = append(p.Procs[g-1], c.Call)
		}
	}

	var out []History

	seen := map[string]bool{}
	add := func(x History) {
		k, _ := json.Marshal([]any{x.Calls, x.Final, x.Inv, x.Deadlock, x.Panic, x.TmpDup})
		if !seen[string(k)] {
			seen[string(k)] = true
			out = append(out, x)
		}
	}

	if len(h.Sched) > 0 {
		x, _, err := runOnce(f, &p, names, func(k int, enabled []int, prev int) int {
			if k < len(h.Sched) {
				for _, g := range enabled {
					if g == h.Sched[k] {
						return g
					}
				}
			}

			for _, g := range enabled {
				if g == prev {
					return g
				}
			}

			return enabled[0]
		})
		if err != nil {
			return nil, err
		}

		add(x)

		return out, nil
	}

	for i := 0; i < runs; i++ {
		x, fin, err := runFree(f, &p, names, true)
		if err != nil {
			return nil, err
		}

		if !fin {
			x.Deadlock = true
			add(x)

			return out, nil
		}

		add(x)
	}

	return out, nil
}
