//go:build verif

package drv

import (
	"bufio"
	"fmt"
	"io"
	"io/fs"
	"math/rand"
	"os"
	"runtime"
	"sort"
	"strings"
	"sync"
	"sync/atomic"
	"time"

	"github.com/avfs/avfs"
	"github.com/avfs/avfs/idm/memidm"
)

// Free-running concurrent executions (C08, and the stress part of C06/C07): goroutines are released together
// and scheduled by the Go runtime on all cores; the binary is built with -race, so that every unsynchronised
// pair of accesses of the executions that ran is reported on stderr. Small programs are recorded as histories
// (with real-time order from an atomic clock) for the linearizability judge Lin.tla; large ones are checked
// for completion, panics and the structural invariants of the final tree.

// StressStats summarises a stress run.
type StressStats struct {
	Programs  int            `json:"programs"`
	Calls     int            `json:"calls"`
	Panics    int            `json:"panics"`
	Hangs     int            `json:"hangs"`
	BadInv    int            `json:"bad_inv"`
	Histories int            `json:"histories"`
	Kinds     map[string]int `json:"kinds"`
	PanicMsgs []string       `json:"panic_msgs"`
	InvMsgs   []string       `json:"inv_msgs"`
}

// StressTemplates returns the call pool of the large programs: the scheduler's namespace templates plus queries
// and attribute changes on the same names.
func StressTemplates(sym bool) (init []Call, templ []Call) {
	init, templ = SchedTemplates(sym)
	with := func(c Call, f func(*Call)) Call { f(&c); return c }
	templ = append(templ,
		mk("readfile", ap("a")), mk("readfile", ap("d", "a")), mk("lstat", ap("a")), mk("stat", ap("d")),
		mk("readdir", ap("d")), mk("remove", ap("b")), mk("remove", ap("d", "b")), mk("removeall", ap("b")),
		with(mk("rename", ap("b")), func(c *Call) { c.Q = ap("a") }),
		with(mk("rename", ap("e")), func(c *Call) { c.Q = ap("d") }),
		with(mk("rename", ap("d", "b")), func(c *Call) { c.Q = ap("d", "a") }),
		with(mk("chmod", ap("d")), func(c *Call) { c.Perm = 0o700 }),
		with(mk("chmod", ap("d")), func(c *Call) { c.Perm = 0o755 }),
		with(mk("truncate", ap("d", "a")), func(c *Call) { c.N = 5 }),
		with(mk("mkdir", ap("d")), func(c *Call) { c.Perm = 0o755 }),
		with(mk("writefile", ap("d", "a")), func(c *Call) { c.Data, c.Perm = []int{7, 7, 7}, 0o600 }),
		with(mk("chtimes", ap("a")), func(c *Call) { c.N = 1000 }),
		mk("exists", ap("b")), mk("isdir", ap("d")),
	)

	return init, templ
}

type stressRec struct {
	start, end int64
	res        Res
}

// runFree runs the program free-running; it returns false when it did not finish within the watchdog delay.
func runFree(f *Factory, p *Program, names []string, record bool) (h History, finished bool, err error) {
	h = History{Prog: p.Name, Fs: f.Target, Init: p.Init, Srt: true, Inv: "ok", Rt: [][]int{}, Final: []Entry{}}

	base, err := f.New()
	if err != nil {
		return h, true, err
	}

	for _, c := range p.Init {
		normCall(&c)

		if r := base.Exec(c); r.Err != "ok" {
			return h, true, fmt.Errorf("set-up call %s %s failed: %s", c.Op, c.P.Render(), r.Err)
		}
	}

	sess := make([]*Session, len(p.Procs))

	for g := range p.Procs {
		s := &Session{Inline: true, Target: f.Target, FS: base.FS, NoIdm: base.NoIdm, NoSym: base.NoSym, NoRootList: base.NoRootList, Tmp: map[string]string{}}

		if strings.HasPrefix(f.Target, "memfs") {
			v, err := base.FS.Sub("/")
			if err != nil {
				return h, true, err
			}

			s.FS = v
		}

		sess[g] = s
	}

	var clock int64

	recs := make([][]stressRec, len(p.Procs))
	tmpNames := make([][]string, len(p.Procs))
	start := make(chan struct{})

	var wg sync.WaitGroup

	for g := range p.Procs {
		recs[g] = make([]stressRec, len(p.Procs[g]))
		tmpNames[g] = make([]string, len(p.Procs[g]))

		wg.Add(1)

		go func(g int) {
			defer wg.Done()
			<-start

			for i, c := range p.Procs[g] {
				normCall(&c)

				known := len(sess[g].Tmp)
				recs[g][i].start = atomic.AddInt64(&clock, 1)
				recs[g][i].res = sess[g].Exec(c)
				recs[g][i].end = atomic.AddInt64(&clock, 1)

				if len(sess[g].Tmp) > known && len(recs[g][i].res.Names) == 1 {
					for real, abs := range sess[g].Tmp {
						if abs == recs[g][i].res.Names[0] {
							tmpNames[g][i] = real
						}
					}
				}
			}
		}(g)
	}

	done := make(chan struct{})

	go func() { wg.Wait(); close(done) }()
	close(start)

	select {
	case <-done:
	case <-time.After(20 * time.Second):
		buf := make([]byte, 1<<20)
		n := runtime.Stack(buf, true)
		fmt.Fprintf(os.Stderr, "HANG in program %s on %s\n%s\n", p.Name, f.Target, buf[:n])

		return h, false, nil
	}

	seenTmp := map[string]bool{}
	idx, idxFirst := map[[2]int]int{}, map[[2]int]int{}

	for g := range p.Procs {
		pos := 0

		for i, c := range p.Procs[g] {
			normCall(&c)
			r := recs[g][i]

			if r.res.Err == "PANIC" {
				h.Panic = true
				h.Inv = "panic: " + strings.Join(r.res.Names, " ")
			}

			if (c.Op == "createtemp" || c.Op == "mkdirtemp") && r.res.Err == "ok" {
				if seenTmp[tmpNames[g][i]] {
					h.TmpDup = true
				}

				seenTmp[tmpNames[g][i]] = true
				r.res.Names = []string{}
			}

			pos++
			idxFirst[[2]int{g, i}] = len(h.Calls) + 1

			if c.Op == "writefile" && r.res.Err == "ok" {
				oc := c
				oc.Op, oc.Flag, oc.Data = "openclose", []string{"WRONLY", "CREATE", "TRUNC"}, []int{}
				h.Calls = append(h.Calls, HistCall{G: g + 1, I: pos, Call: oc, Res: NewRes("ok")})
				pos++
			}

			h.Calls = append(h.Calls, HistCall{G: g + 1, I: pos, Call: c, Res: r.res})
			idx[[2]int{g, i}] = len(h.Calls)
		}
	}

	if h.Panic {
		return h, true, nil
	}

	if record {
		for g1 := range p.Procs {
			for i1 := range p.Procs[g1] {
				for g2 := range p.Procs {
					for i2 := range p.Procs[g2] {
						if g1 != g2 && recs[g1][i1].end < recs[g2][i2].start {
							h.Rt = append(h.Rt, []int{idx[[2]int{g1, i1}], idxFirst[[2]int{g2, i2}]})
						}
					}
				}
			}
		}
	}

	all := &Session{Target: f.Target, FS: base.FS, NoIdm: base.NoIdm, NoRootList: base.NoRootList, Check: base.Check, Tmp: map[string]string{}}
	for n := range seenTmp {
		all.Tmp[n] = "~"
	}

	for k := range h.Calls {
		for j, n := range h.Calls[k].Res.Names {
			if seenTmp[n] || strings.HasPrefix(n, "~") {
				h.Calls[k].Res.Names[j] = "~"
			}
		}
	}

	if record {
		snap := all.Project(names)
		h.Final, h.Srt = snap.Post, snap.Srt
	}

	if all.Check != nil {
		h.Inv = all.Check()
	}

	return h, true, nil
}

// stressHandles: goroutines working on one file through their own handles or through one shared handle, and on a
// directory handle while entries are created and removed. Only completion, panics and the race detector judge it.
func stressHandles(f *Factory, r *rand.Rand, ngor, length int) (calls int, panicMsg string, finished bool, err error) {
	base, err := f.New()
	if err != nil {
		return 0, "", true, err
	}

	vfs := base.FS
	if err := vfs.WriteFile("/w/a", []byte("0123456789"), 0o644); err != nil {
		return 0, "", true, err
	}

	shared, err := vfs.OpenFile("/w/a", os.O_RDWR, 0)
	if err != nil {
		return 0, "", true, err
	}

	sharedDir, err := vfs.OpenFile("/w", os.O_RDONLY, 0)
	if err != nil {
		return 0, "", true, err
	}

	share := r.Intn(2) == 0
	seeds := make([]int64, ngor)

	for g := range seeds {
		seeds[g] = r.Int63()
	}

	var (
		wg    sync.WaitGroup
		ncall int64
		pmu   sync.Mutex
	)

	start := make(chan struct{})

	for g := 0; g < ngor; g++ {
		wg.Add(1)

		go func(g int) {
			defer wg.Done()
			defer func() {
				if rec := recover(); rec != nil {
					pmu.Lock()
					panicMsg = fmt.Sprint(rec)
					pmu.Unlock()
				}
			}()

			rr := rand.New(rand.NewSource(seeds[g]))
			v := vfs

			if strings.HasPrefix(f.Target, "memfs") {
				v, _ = vfs.Sub("/")
			}

			fh, dh := shared, sharedDir
			if !share {
				fh, _ = v.OpenFile("/w/a", os.O_RDWR, 0)
				dh, _ = v.OpenFile("/w", os.O_RDONLY, 0)
			}

			<-start

			buf := make([]byte, 4)

			for i := 0; i < length; i++ {
				atomic.AddInt64(&ncall, 1)

				switch rr.Intn(22) {
				case 0:
					_, _ = fh.Read(buf)
				case 1:
					_, _ = fh.Write([]byte{byte(g), byte(i)})
				case 2:
					_, _ = fh.ReadAt(buf, int64(rr.Intn(12)))
				case 3:
					_, _ = fh.WriteAt([]byte{byte(g)}, int64(rr.Intn(12)))
				case 4:
					_, _ = fh.Seek(int64(rr.Intn(12)), rr.Intn(3))
				case 5:
					_ = fh.Truncate(int64(rr.Intn(12)))
				case 6:
					_, _ = fh.Stat()
				case 7:
					_ = fh.Sync()
				case 8:
					_ = fh.Chmod(fsMode(0o600 + rr.Intn(64)))
				case 9:
					_, _ = fh.WriteString("xy")
				case 10:
					_, _ = dh.ReadDir(rr.Intn(3) - 1)
				case 11:
					_, _ = dh.Readdirnames(rr.Intn(3) - 1)
				case 12:
					_, _ = dh.Stat()
				case 13:
					_ = v.WriteFile(fmt.Sprintf("/w/n%d", rr.Intn(4)), []byte{1}, 0o644)
				case 14:
					_ = v.Remove(fmt.Sprintf("/w/n%d", rr.Intn(4)))
				case 15:
					_ = v.Truncate("/w/a", int64(rr.Intn(12)))
				case 16:
					_, _ = v.ReadFile("/w/a")
				case 17:
					_, _ = v.Stat("/w/a")
				case 18:
					_ = v.Chmod("/w/a", fsMode(0o600+rr.Intn(64)))
				case 19:
					_ = v.Link("/w/a", fmt.Sprintf("/w/n%d", rr.Intn(4)))
				case 20:
					_ = fh.Name()
					_, _ = dh.Seek(0, 0)
				case 21:
					if !share && rr.Intn(4) == 0 {
						_ = fh.Close()
						fh, _ = v.OpenFile("/w/a", os.O_RDWR|os.O_CREATE, 0o644)
					}
				}
			}
		}(g)
	}

	done := make(chan struct{})

	go func() { wg.Wait(); close(done) }()
	close(start)

	select {
	case <-done:
	case <-time.After(20 * time.Second):
		buf := make([]byte, 1<<20)
		n := runtime.Stack(buf, true)
		fmt.Fprintf(os.Stderr, "HANG in handle program on %s\n%s\n", f.Target, buf[:n])

		return int(ncall), "", false, nil
	}

	return int(ncall), panicMsg, true, nil
}

// stressViews: per-goroutine Sub views of one MemFS with different users, umasks and working directories, and one
// shared identity manager changed concurrently.
func stressViews(f *Factory, r *rand.Rand, ngor, length int) (calls int, panicMsg string, finished bool, err error) {
	base, err := f.New()
	if err != nil {
		return 0, "", true, err
	}

	vfs := base.FS
	idm := vfs.Idm()

	if _, err := idm.AddGroup("g1"); err != nil {
		return 0, "", true, err
	}

	for _, u := range []string{"u1", "u2", "u3"} {
		if _, err := idm.AddUser(u, "g1"); err != nil {
			return 0, "", true, err
		}
	}

	_ = vfs.MkdirAll("/w/pub", 0o777)
	_ = vfs.Chmod("/w/pub", 0o777)

	seeds := make([]int64, ngor)
	for g := range seeds {
		seeds[g] = r.Int63()
	}

	var (
		wg    sync.WaitGroup
		ncall int64
		pmu   sync.Mutex
	)

	start := make(chan struct{})

	for g := 0; g < ngor; g++ {
		wg.Add(1)

		go func(g int) {
			defer wg.Done()
			defer func() {
				if rec := recover(); rec != nil {
					pmu.Lock()
					panicMsg = fmt.Sprint(rec)
					pmu.Unlock()
				}
			}()

			rr := rand.New(rand.NewSource(seeds[g]))

			v, err := vfs.Sub("/")
			if err != nil {
				return
			}

			<-start

			for i := 0; i < length; i++ {
				atomic.AddInt64(&ncall, 1)

				switch rr.Intn(16) {
				case 0:
					_ = v.SetUserByName([]string{"u1", "u2", "u3", "root"}[rr.Intn(4)])
				case 1:
					_ = v.SetUMask(fsMode([]int{0o022, 0o077, 0}[rr.Intn(3)]))
				case 2:
					_ = v.Chdir([]string{"/w", "/w/pub", "/"}[rr.Intn(3)])
				case 3:
					_ = v.WriteFile(fmt.Sprintf("/w/pub/f%d", rr.Intn(4)), []byte{byte(g)}, 0o666)
				case 4:
					_ = v.Remove(fmt.Sprintf("/w/pub/f%d", rr.Intn(4)))
				case 5:
					_, _ = v.Stat(fmt.Sprintf("f%d", rr.Intn(4)))
				case 6:
					_, _ = v.ReadDir("/w/pub")
				case 7:
					_ = v.User().Name()
					_ = v.UMask()
					_, _ = v.Getwd()
				case 8:
					_ = v.Mkdir(fmt.Sprintf("/w/pub/d%d", rr.Intn(3)), 0o755)
				case 9:
					_ = v.Chown(fmt.Sprintf("/w/pub/f%d", rr.Intn(4)), rr.Intn(3), rr.Intn(3))
				case 10:
					_, _ = idm.LookupUser([]string{"u1", "u2", "u3", "x1"}[rr.Intn(4)])
				case 11:
					_, _ = idm.AddUser(fmt.Sprintf("x%d", rr.Intn(3)), "g1")
				case 12:
					_ = idm.DelUser(fmt.Sprintf("x%d", rr.Intn(3)))
				case 13:
					_, _ = idm.AddGroup(fmt.Sprintf("h%d", rr.Intn(3)))
				case 14:
					_ = idm.DelGroup(fmt.Sprintf("h%d", rr.Intn(3)))
				case 15:
					_, _ = idm.LookupGroupId(rr.Intn(5))
					_, _ = idm.LookupUserId(rr.Intn(5))
				}
			}
		}(g)
	}

	done := make(chan struct{})

	go func() { wg.Wait(); close(done) }()
	close(start)

	select {
	case <-done:
	case <-time.After(20 * time.Second):
		buf := make([]byte, 1<<20)
		n := runtime.Stack(buf, true)
		fmt.Fprintf(os.Stderr, "HANG in view program on %s\n%s\n", f.Target, buf[:n])

		return int(ncall), "", false, nil
	}

	return int(ncall), panicMsg, true, nil
}

// Stress runs nprogs free-running programs and writes the recorded histories of the small ones.
func Stress(f *Factory, seed int64, nprogs, maxG, length int, names []string, out io.Writer) (StressStats, error) {
	st := StressStats{Kinds: map[string]int{}, PanicMsgs: []string{}, InvMsgs: []string{}}
	r := rand.New(rand.NewSource(seed))
	sym := f.Target == "memfs"
	init, small := SchedTemplates(sym)
	_, big := StressTemplates(sym)

	w := bufio.NewWriter(out)
	defer w.Flush()

	seen := map[string]bool{}

	var hs []History

	for k := 0; k < nprogs; k++ {
		kind := []string{"small", "small", "big", "handles", "views"}[k%5]
		if kind == "views" && f.Target != "memfs" {
			kind = "big"
		}

		st.Kinds[kind]++
		st.Programs++

		switch kind {
		case "small", "big":
			p := Program{Name: fmt.Sprintf("%s-%d-%d", kind, seed, k), Init: init}
			ng, ln, pool := 2+r.Intn(2), 1+r.Intn(2), small

			if kind == "big" {
				ng, ln, pool = 2+r.Intn(maxG-1), length, big
			}

			for g := 0; g < ng; g++ {
				var cs []Call
				for i := 0; i < ln; i++ {
					cs = append(cs, pool[r.Intn(len(pool))])
				}

				p.Procs = append(p.Procs, cs)
			}

			h, fin, err := runFree(f, &p, names, kind == "small")
			if err != nil {
				return st, err
			}

			st.Calls += len(h.Calls)

			if !fin {
				st.Hangs++

				return st, nil // the hung goroutines still hold locks: the process must end
			}

			if h.Panic {
				st.Panics++
				st.PanicMsgs = append(st.PanicMsgs, h.Inv)

				continue
			}

			if kind == "big" {
				if h.Inv != "ok" {
					st.BadInv++
					ops := map[string]bool{}

					for _, c := range h.Calls {
						ops[c.Call.Op] = true
					}

					var l []string
					for o := range ops {
						l = append(l, o)
					}

					sort.Strings(l)
					st.InvMsgs = append(st.InvMsgs, h.Inv+" | ops: "+strings.Join(l, ","))
				}

				continue
			}

			key := fmt.Sprint(h.Calls, h.Rt, h.Final, h.Inv, h.TmpDup)
			if !seen[key] {
				seen[key] = true
				hs = append(hs, h)
			}
		case "handles":
			n, pm, fin, err := stressHandles(f, r, 2+r.Intn(maxG-1), length)
			if err != nil {
				return st, err
			}

			st.Calls += n

			if !fin {
				st.Hangs++

				return st, nil
			}

			if pm != "" {
				st.Panics++
				st.PanicMsgs = append(st.PanicMsgs, "handles: "+pm)
			}
		case "views":
			n, pm, fin, err := stressViews(f, r, 2+r.Intn(maxG-1), length)
			if err != nil {
				return st, err
			}

			st.Calls += n

			if !fin {
				st.Hangs++

				return st, nil
			}

			if pm != "" {
				st.Panics++
				st.PanicMsgs = append(st.PanicMsgs, "views: "+pm)
			}
		}
	}

	st.Histories = len(hs)

	return st, WriteHistories(w, hs, int(seed%1000)*100000+1)
}

var (
	_ = memidm.New
	_ avfs.VFS
)

func fsMode(m int) fs.FileMode { return ModeOf(m) }
