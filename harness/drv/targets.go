package drv

import (
	"strings"

	"fmt"
	"os"
	"runtime"
	"syscall"

	"github.com/avfs/avfs"
	"github.com/avfs/avfs/idm/memidm"
	"github.com/avfs/avfs/vfs/memfs"
	"github.com/avfs/avfs/vfs/orefafs"
	"github.com/avfs/avfs/vfs/osfs"
)

// Factory builds fresh sessions of one target.
type Factory struct {
	Target string
	jailed bool
	osfs   *osfs.OsFS
}

// WorkDir is the directory the universe of every run lives in. OrefaFS cannot stat or list its own
// root directory, so the tree is observed from here on that target.
const WorkDir = "w"

// a non-empty list keeps the default system directories away
var sysDirs = []avfs.DirInfo{{Path: "/" + WorkDir, Perm: 0o755}}

var winDirs = []avfs.DirInfo{{Path: "C:\\" + WorkDir, Perm: 0o755}}

// NewFactory prepares a target. For "osfs" the calling process is chrooted into a
// fresh tmpfs directory (the process must be dedicated to this target).
func NewFactory(target string) (*Factory, error) {
	_ = avfs.SetUMask(0o022)
	f := &Factory{Target: target}
	winSession = strings.HasSuffix(target, "-win")
	if target == "memfs-d-win" {
		WinVolume = "D:"
	}

	if target == "osfs" {
		f.osfs = osfs.New()

		base := os.Getenv("VERIF_JAILBASE")
		if base == "" {
			base = "/dev/shm"
		}

		dir, err := os.MkdirTemp(base, "verif-jail-")
		if err != nil {
			return nil, err
		}

		if err := os.Chmod(dir, 0o755); err != nil {
			return nil, err
		}

		if err := syscall.Chroot(dir); err != nil {
			return nil, fmt.Errorf("chroot: %w", err)
		}

		if err := os.Chdir("/"); err != nil {
			return nil, err
		}

		f.jailed = true
		// the directory is removed by the parent (JailDir is printed on stderr by the caller if needed)
		jailDir = dir
	}

	return f, nil
}

var jailDir string

// JailDir returns the host path of the jail (valid for the parent to clean up).
func JailDir() string { return jailDir }

// New returns a fresh session: "/" and "/w" with mode 0755 owned by root, umask 022, cwd "/".
func (f *Factory) New() (*Session, error) {
	s := &Session{Target: f.Target}

	switch f.Target {
	case "memfs":
		idm := memidm.New()
		vfs := memfs.NewWithOptions(&memfs.Options{SystemDirs: sysDirs, Idm: idm})
		_ = vfs.SetUMask(0o022)
		_ = vfs.Chdir("/")
		s.FS = vfs
		s.Check = memfsCheck(vfs)
	case "memfs-d-win":
		// the same, but everything happens in an ADDED volume D: (symbolic links that reset the walk must stay in it)
		vfs := memfs.NewWithOptions(&memfs.Options{Idm: memidm.New(), OSType: avfs.OsWindows})
		if vfs.OSType() != avfs.OsWindows {
			return nil, fmt.Errorf("a Windows-typed MemFS cannot be constructed (build without avfs_setostype?)")
		}

		if err := vfs.VolumeAdd("D:"); err != nil {
			return nil, err
		}

		_ = vfs.SetUMask(0o022)

		if err := vfs.MkdirAll("D:\\"+WorkDir, 0o755); err != nil {
			return nil, err
		}

		_ = vfs.Chdir("D:\\")
		s.FS = vfs
		s.Win = true
		s.Check = memfsCheck(vfs)
	case "memfs-win":
		vfs := memfs.NewWithOptions(&memfs.Options{SystemDirs: winDirs, Idm: memidm.New(), OSType: avfs.OsWindows})
		if vfs.OSType() != avfs.OsWindows {
			return nil, fmt.Errorf("a Windows-typed MemFS cannot be constructed (build without avfs_setostype?)")
		}

		_ = vfs.SetUMask(0o022)
		_ = vfs.Chdir("C:\\")
		s.FS = vfs
		s.Win = true
		s.Check = memfsCheck(vfs)
	case "orefafs-win":
		vfs := orefafs.NewWithOptions(&orefafs.Options{SystemDirs: winDirs, OSType: avfs.OsWindows})
		if vfs.OSType() != avfs.OsWindows {
			return nil, fmt.Errorf("a Windows-typed OrefaFS cannot be constructed (build without avfs_setostype?)")
		}

		_ = vfs.SetUMask(0o022)
		s.FS = vfs
		s.NoIdm = true
		s.NoSym = true
		s.NoRootList = true
		s.Win = true
		s.Check = orefafsCheck(vfs)
	case "orefafs":
		vfs := orefafs.NewWithOptions(&orefafs.Options{SystemDirs: sysDirs})
		_ = vfs.SetUMask(0o022)
		s.FS = vfs
		s.NoIdm = true
		s.NoSym = true
		s.NoRootList = true
		s.Check = orefafsCheck(vfs)
	case "osfs":
		if err := resetJail(); err != nil {
			return nil, err
		}

		s.FS = f.osfs
		s.AsUser = asUser
	default:
		return nil, fmt.Errorf("unknown target %q", f.Target)
	}

	return s, nil
}

func resetJail() error {
	_ = os.Chdir("/")
	syscall.Umask(0o022)
	_ = avfs.SetUMask(0o022)

	des, err := os.ReadDir("/")
	if err != nil {
		return err
	}

	for _, de := range des {
		p := "/" + de.Name()
		if err := os.RemoveAll(p); err != nil {
			// a directory without permissions: force and retry
			_ = chmodTree(p)
			if err := os.RemoveAll(p); err != nil {
				return err
			}
		}
	}

	if err := os.Chmod("/", 0o755); err != nil {
		return err
	}

	if err := os.Chown("/", 0, 0); err != nil {
		return err
	}

	if err := os.Mkdir("/"+WorkDir, 0o755); err != nil {
		return err
	}

	return nil
}

func chmodTree(p string) error {
	fi, err := os.Lstat(p)
	if err != nil {
		return err
	}

	if !fi.IsDir() {
		return nil
	}

	_ = os.Chmod(p, 0o700)

	des, _ := os.ReadDir(p)
	for _, de := range des {
		_ = chmodTree(p + "/" + de.Name())
	}

	return nil
}

// asUser runs fn on a locked OS thread whose fsuid/fsgid/supplementary groups are those of
// the acting user (raw syscalls: they affect only the calling thread), and restores root.
func asUser(uid, gid int, groups []int, fn func()) {
	runtime.LockOSThread()
	defer runtime.UnlockOSThread()

	g32 := make([]uint32, len(groups))
	for i, g := range groups {
		g32[i] = uint32(g)
	}

	setgroupsRaw(g32)
	_, _, _ = syscall.RawSyscall(syscall.SYS_SETFSGID, uintptr(gid), 0, 0)
	_, _, _ = syscall.RawSyscall(syscall.SYS_SETFSUID, uintptr(uid), 0, 0)

	defer func() {
		_, _, _ = syscall.RawSyscall(syscall.SYS_SETFSUID, 0, 0, 0)
		_, _, _ = syscall.RawSyscall(syscall.SYS_SETFSGID, 0, 0, 0)
		setgroupsRaw([]uint32{0})
	}()

	fn()
}

// Impl is the name of the implementation in the specification (several targets may exercise one implementation).
func (f *Factory) Impl() string {
	if f.Target == "memfs-d-win" {
		return "memfs-win"
	}

	return f.Target
}
