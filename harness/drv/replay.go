package drv

import (
	"os"
	"strconv"
	"sync"
	"sync/atomic"

	"github.com/avfs/avfs"
	"github.com/avfs/avfs/vfs/basepathfs"
	"github.com/avfs/avfs/vfs/failfs"
	"github.com/avfs/avfs/vfs/rofs"

	"bufio"
	"encoding/json"
	"fmt"
	"io"
	"sort"
	"strings"
)

// ResEqual compares the result fields that are meaningful for the operation.
func ResEqual(op string, a, b Res) bool {
	if a.Err != b.Err {
		return false
	}

	if a.Err != "ok" && a.Err != "EOF" && !(op == "walk" && a.Err == "ECALLBACK") {
		return true
	}

	switch op {
	case "stat", "lstat", "fstat":
		return a.Info == b.Info
	case "readlink", "evalsymlinks", "getwd", "abs":
		return a.Path.Render() == b.Path.Render() && a.Path.Abs == b.Path.Abs
	case "readdir", "freaddir", "freaddirnames":
		return a.N == b.N && sameSet(a.Names, b.Names)
	case "glob", "walk":
		return sameSeq(a.Names, b.Names) // in order
	case "exists", "direxists", "isdir", "isempty":
		return a.N == b.N
	case "readfile", "read", "readat":
		return a.N == b.N && sameInts(a.Data, b.Data)
	case "write", "writestring", "writeat", "seek", "open":
		return a.N == b.N
	case "createtemp", "mkdirtemp":
		return a.N == b.N && sameSet(a.Names, b.Names)
	}

	return true
}

func sameSet(a, b []string) bool {
	if len(a) != len(b) {
		return false
	}

	x := append([]string{}, a...)
	y := append([]string{}, b...)
	sort.Strings(x)
	sort.Strings(y)

	for i := range x {
		if x[i] != y[i] {
			return false
		}
	}

	return true
}

func sameInts(a, b []int) bool {
	if len(a) != len(b) {
		return false
	}

	for i := range a {
		if a[i] != b[i] {
			return false
		}
	}

	return true
}

// Step executes a call and records the event (result + full projection).
func (s *Session) Step(tr string, i int, c Call, names []string) Event {
	normCall(&c)
	s.cons = []string{}
	s.leak = false
	res := s.Exec(c)
	cons := s.cons
	leak := s.leak
	s.quiet = true

	var snap Snapshot
	if res.Err != "HANG" {
		snap = s.Project(names)
	} else {
		snap = Snapshot{Post: []Entry{}, Hs: []HandleView{}, Cwd: Path{Parts: []string{}}, Srt: true}
	}

	s.quiet = false
	ev := Event{Tr: tr, I: i, Fs: s.Target, Call: c, Res: res, Post: snap.Post, Hs: snap.Hs, Cwd: snap.Cwd, Srt: snap.Srt, Inv: "ok", Cons: cons, Leak: leak, Um: s.baseUmask(), Uid: s.baseUid()}

	if ev.Cwd.Parts == nil {
		ev.Cwd.Parts = []string{}
	}

	if ev.Hs == nil {
		ev.Hs = []HandleView{}
	}

	if s.Check != nil && !s.Dead {
		ev.Inv = s.Check()
	}

	if s.Wrap != "" {
		ev.Mt = s.MtimeDigest()
	}

	return ev
}

func sameHs(a, b []HandleView) bool {
	if len(a) != len(b) {
		return false
	}

	for i := range a {
		if a[i] != b[i] {
			return false
		}
	}

	return true
}

func sameSeq(a, b []string) bool {
	if len(a) != len(b) {
		return false
	}

	for i := range a {
		if a[i] != b[i] {
			return false
		}
	}

	return true
}

func (s *Session) baseUmask() int {
	if s.Target == "osfs" {
		return -1
	}

	if s.CwdFS != nil {
		return int(s.CwdFS.UMask()) // the acting user's own view (C03): its umask is the one in force
	}

	return int(s.base().UMask())
}

// baseUid is the current user of the base file system below a RoFS or FailFS wrapper (-1: not observed).
func (s *Session) baseUid() int {
	if s.Target == "osfs" || s.Base == nil || !(s.Wrap == "rofs" || strings.HasPrefix(s.Wrap, "fail")) {
		return -1
	}

	if !s.Base.HasFeature(avfs.FeatIdentityMgr) || s.Base.User() == nil {
		return -1
	}

	return s.Base.User().Uid()
}

func permClass(e string) bool { return e == "EACCES" || e == "EPERM" }

// WrapWith puts a wrapper around the session's file system; calls go through the wrapper from now on
// while the projection keeps reading the base. The returned pseudo event marks the switch in the trace.
func (s *Session) WrapWith(tr string, i int, kind string, names []string) Event {
	s.Base = s.FS
	s.Wrap = kind

	switch {
	case kind == "rofs":
		s.FS = rofs.New(s.Base)
	case strings.HasPrefix(kind, "sub:"), strings.HasPrefix(kind, "subn:"):
		// a Sub view of the base at the given directory; "subn:" makes it level by level (nested views)
		s.Wrap = "sub"
		nested := strings.HasPrefix(kind, "subn:")
		s.SubDir = strings.TrimPrefix(strings.TrimPrefix(kind, "subn:"), "sub:")
		s.SubDir2 = ""

		if i := strings.Index(s.SubDir, "+"); i >= 0 {
			// a second view of the same parent, made right after the first
			s.SubDir, s.SubDir2 = s.SubDir[:i], s.SubDir[i+1:]
		}

		steps := []string{s.SubDir}
		if nested {
			steps = nil
			for _, c := range strings.Split(strings.Trim(s.SubDir, "/"), "/") {
				if c != "" {
					steps = append(steps, "/"+c)
				}
			}

			if len(steps) == 0 {
				steps = []string{"/", "/"} // a view of the root, and a view of that view
			}
		}

		view := s.Base

		for _, d := range steps {
			sub, err := view.Sub(d)
			if err != nil {
				s.Dead = true

				break
			}

			view = sub
		}

		if !s.Dead {
			s.FS = view
		}

		if !s.Dead && s.SubDir2 != "" {
			v2, err := s.Base.Sub(s.SubDir2)
			if err != nil {
				s.Dead = true
			} else {
				s.FS2 = v2
			}
		}
	case kind == "basepath":
		s.BasePath = "/" + WorkDir + "/B"
		s.FS = basepathfs.New(s.Base, s.BasePath)
	case kind == "failro":
		f := failfs.New(s.Base)
		_ = f.SetFailFunc(failfs.ReadOnlyFunc)
		s.FS = f
	case strings.HasPrefix(kind, "failfs"):
		// "failfs" (no plan) or "failfs:<Fn>:<k>"
		parts := strings.Split(kind, ":")
		if len(parts) == 3 {
			s.FailFn = parts[1]
			s.FailK, _ = strconv.Atoi(parts[2])
		}

		s.failCount = map[string]int{}
		f := failfs.New(s.Base)
		_ = f.SetFailFunc(func(_ avfs.VFSBase, fn avfs.FnVFS, _ *failfs.FailParam) error {
			if s.quiet {
				return nil
			}

			name := strings.TrimPrefix(fn.String(), "Fn")
			s.cons = append(s.cons, name)
			s.failCount[name]++

			if name == s.FailFn && s.failCount[name] == s.FailK {
				return ErrInjected
			}

			return nil
		})
		s.FS = f
	}

	c := Call{Op: "wrap", Flag: []string{kind}}
	if s.Wrap == "sub" {
		c.Flag = []string{"sub"}
		c.P = ParsePath(s.SubDir)

		if s.SubDir2 != "" {
			c.Q = ParsePath(s.SubDir2)
			c.N = 2
		}
	}

	if strings.HasPrefix(kind, "failfs") {
		c.Flag = []string{"failfs"}
		s.Wrap = "failfs"

		if s.FailFn != "" {
			c.Flag = []string{"failfs", s.FailFn}
			c.N = s.FailK
		}
	}

	normCall(&c)
	snap := s.Project(names)

	return Event{Tr: tr, I: i, Fs: s.Target, Call: c, Res: NewRes("ok"), Post: snap.Post, Hs: snap.Hs, Cwd: snap.Cwd,
		Srt: snap.Srt, Inv: "ok", Mt: s.MtimeDigest(), Cons: []string{}, Um: s.baseUmask(), Uid: s.baseUid()}
}

// BuildCalls returns elementary calls (mkdir, writefile, link, symlink, chown, chmod on fresh names)
// that construct a tree with the given projection from the initial state.
func BuildCalls(pre []Entry, noIdm bool) []Call {
	es := append([]Entry{}, pre...)
	sort.Slice(es, func(a, b int) bool {
		if len(es[a].P) != len(es[b].P) {
			return len(es[a].P) < len(es[b].P)
		}

		return strings.Join(es[a].P, "/") < strings.Join(es[b].P, "/")
	})

	var calls []Call

	made := map[string]Path{}
	mk := func(op string, p Path) Call {
		c := Call{Op: op, P: p}
		normCall(&c)

		return c
	}

	for _, e := range es {
		p := Path{Abs: true, Parts: e.P}

		switch e.K {
		case "dir":
			if len(e.P) == 1 && e.P[0] == WorkDir {
				continue
			}

			c := mk("mkdir", p)
			c.Perm = 0o777
			calls = append(calls, c)
		case "file":
			key := ""
			if len(e.Same) > 0 {
				key = strings.Join(e.Same[0], "/")
			}

			if first, ok := made[key]; ok && key != "" {
				c := mk("link", first)
				c.Q = p
				calls = append(calls, c)

				continue
			}

			c := mk("writefile", p)
			c.Data = e.D
			c.Perm = 0o666
			calls = append(calls, c)
			made[key] = p
		case "link":
			c := mk("symlink", p)
			c.Q = e.T
			calls = append(calls, c)
		}
	}

	// owners and modes last, deepest first, so that restrictive directory modes do not get in the way
	for i := len(es) - 1; i >= 0; i-- {
		e := es[i]
		p := Path{Abs: true, Parts: e.P}

		if (e.U != 0 || e.G != 0) && !noIdm {
			op := "chown"
			if e.K == "link" {
				op = "lchown"
			}

			c := mk(op, p)
			c.Uid, c.Gid = e.U, e.G
			calls = append(calls, c)
		}

		if e.K == "link" {
			continue
		}

		if e.K == "file" && len(e.Same) > 0 && strings.Join(e.Same[0], "/") != strings.Join(e.P, "/") {
			continue // one chmod per inode
		}

		c := mk("chmod", p)
		c.Perm = e.M
		calls = append(calls, c)
	}

	return calls
}

// EdgeResult is the verdict of one replayed edge.
type EdgeResult struct {
	Idx    int     `json:"idx"`
	Target string  `json:"target"`
	Status string  `json:"status"` // "ok" | "explained" | "mismatch" | "unreach" | "skip"
	Kf     string  `json:"kf,omitempty"`
	How    string  `json:"how"` // "hist" | "built"
	Why    string  `json:"why,omitempty"`
	Trace  []Event `json:"trace,omitempty"`
	Edge   *Edge   `json:"edge,omitempty"`
}

// ReplayStats summarises a replay run.
type ReplayStats struct {
	Edges, OK, Mismatch, Unreach, Skipped, Built, Explained, Corrupt int
	Kf                                                               map[string]int
}

// Applicable tells whether a call is within the features a target advertises.
func Applicable(target string, c Call) bool {
	if strings.HasSuffix(target, "-win") {
		switch c.Op {
		case "chown", "lchown", "fchown", "chmod", "fchmod", "setumask":
			return false // documented as OS specific
		}
	}

	if c.Op == "setuser" && !strings.HasPrefix(target, "memfs") && target != "osfs" {
		return false // only MemFS has an identity manager (C03 is about MemFS)
	}

	if strings.HasPrefix(target, "orefafs") {
		switch c.Op {
		case "symlink", "readlink", "evalsymlinks", "chown", "lchown", "fchown":
			return false
		}

		// OrefaFS does not know its own root directory under the name "/" (known finding KF09,
		// witnessed separately): calls that name it are not issued.
		isRoot := func(p Path) bool {
			if p.Abs {
				return len(cleanParts(p.Parts)) == 0
			}

			// a relative path that climbs: it may end at the root directory
			for _, c := range p.Parts {
				if c == ".." {
					return true
				}
			}

			return len(p.Parts) > 0 && len(cleanParts(p.Parts)) == 0
		}
		if isRoot(c.P) || ((c.Op == "rename" || c.Op == "link") && isRoot(c.Q)) {
			return false
		}

		// a glob that has to list the root directory: relative patterns (the working directory may be "/")
		// and absolute patterns whose first segment is not literal
		if c.Op == "glob" && (!c.P.Abs || (len(c.P.Parts) > 0 && strings.ContainsAny(c.P.Parts[0], "*?[\\"))) {
			return false
		}
	}

	return true
}

// ReplayEdges reads TLC edges, replays the shard's share against fresh sessions and writes one
// EdgeResult line for every edge that did not conform.
// MaxBadTraces bounds the non-conforming steps written out with their trace.
var MaxBadTraces = func() int {
	if n, err := strconv.Atoi(os.Getenv("VERIF_MAXBAD")); err == nil && n > 0 {
		return n
	}

	return 3000
}()

func ReplayEdges(f *Factory, in io.ReadSeeker, out io.Writer, shard, nshard int, names []string, workers int) (ReplayStats, error) {
	var (
		st      ReplayStats
		mu      sync.Mutex
		written int
	)

	keyOf := func(e *Edge) string {
		b, _ := json.Marshal([]any{e.Wrap, e.Hist, e.Wh, e.Call})

		return string(b)
	}

	// pass over the file with a pool of decoding workers; fn is called concurrently
	scan := func(fn func(idx int, e *Edge)) error {
		if _, err := in.Seek(0, io.SeekStart); err != nil {
			return err
		}

		type item struct {
			idx  int
			line []byte
		}

		ch := make(chan item, 4*workers)

		var wg sync.WaitGroup

		for w := 0; w < workers; w++ {
			wg.Add(1)

			go func() {
				defer wg.Done()

				for it := range ch {
					var e Edge
					if err := DecodeTLC(it.line, &e); err != nil {
						// a line damaged by concurrent appends of TLC workers (only lines above 8 KiB can be)
						mu.Lock()
						st.Corrupt++
						mu.Unlock()

						continue
					}

					fn(it.idx, &e)
				}
			}()
		}

		sc := bufio.NewScanner(in)
		sc.Buffer(make([]byte, 1<<20), 1<<28)

		idx := -1
		for sc.Scan() {
			idx++
			ch <- item{idx: idx, line: append([]byte(nil), sc.Bytes()...)}
		}

		close(ch)
		wg.Wait()

		return sc.Err()
	}

	// First pass: the alternative outcomes (deviation catalogue) of the transitions, by key.
	alts := map[string][]Alt{}

	if f.Target != "osfs" {
		if err := scan(func(_ int, e *Edge) {
			if e.T == "alt" && e.Alt != nil && e.Alt.Impl == f.Impl() {
				k := keyOf(e)
				mu.Lock()
				alts[k] = append(alts[k], *e.Alt)
				mu.Unlock()
			}
		}); err != nil {
			return st, err
		}

		st.Corrupt = 0
	}

	w := bufio.NewWriter(out)
	enc := json.NewEncoder(w)

	var firstErr error

	err := scan(func(idx int, e *Edge) {
		if e.T == "alt" || idx%nshard != shard {
			return
		}

		if len(alts) > 0 {
			e.Alts = alts[keyOf(e)]
		}

		r, err := f.replayEdge(idx, e, names)

		mu.Lock()
		defer mu.Unlock()

		if err != nil {
			if firstErr == nil {
				firstErr = err
			}

			return
		}

		st.Edges++

		switch r.Status {
		case "explained":
			st.Explained++

			if st.Kf == nil {
				st.Kf = map[string]int{}
			}

			st.Kf[r.Kf]++
		case "ok":
			st.OK++
		case "mismatch":
			st.Mismatch++
		case "unreach":
			st.Unreach++
		case "skip":
			st.Skipped++
		}

		if r.How == "built" {
			st.Built++
		}

		// a change that breaks nearly every step would produce gigabytes of traces: the first MaxBadTraces
		// non-conforming steps are kept for judgement, the others are only counted
		if r.Status == "mismatch" || (r.Status == "unreach" && len(r.Trace) > 0) {
			written++
		}

		if (r.Status == "mismatch" || (r.Status == "unreach" && len(r.Trace) > 0)) && written <= MaxBadTraces {
			if err := enc.Encode(r); err != nil && firstErr == nil {
				firstErr = err
			}
		}
	})
	if err == nil {
		err = firstErr
	}

	if ferr := w.Flush(); err == nil {
		err = ferr
	}

	return st, err
}

// winRes maps an expected result to what a Windows-typed file system shows of it: the errno becomes "some
// Windows error value", modes and owners are not compared (documented as OS specific).
func winRes(r Res) Res {
	switch r.Err {
	case "ok", "EOF", "CLOSED", "NOHANDLE", "NEGOFF", "EAPPENDAT", "EINVALH", "PANIC", "DEADLOCK", "HANG", "EINJECTED", "LINUX-ELOOP":
	default:
		r.Err = "WIN"
	}

	r.Info.M, r.Info.U, r.Info.G = 0, 0, 0

	return r
}

func (f *Factory) replayEdge(idx int, e *Edge, names []string) (EdgeResult, error) {
	r := EdgeResult{Idx: idx, Target: f.Target, How: "hist"}

	if strings.HasSuffix(f.Target, "-win") {
		e.Res = winRes(e.Res)
		for i := range e.Hs {
			e.Hs[i].M = 0
		}

		for i := range e.Alts {
			e.Alts[i].Res = winRes(e.Alts[i].Res)
			for j := range e.Alts[i].Hs {
				e.Alts[i].Hs[j].M = 0
			}
		}
	}

	normCall(&e.Call)

	if atomic.LoadInt32(&HangCount) >= 6 {
		// several calls are already spinning for ever: the verdict is in, the remaining edges are not replayed
		r.Status = "skip"

		return r, nil
	}

	if !Applicable(f.Target, e.Call) {
		r.Status = "skip"

		return r, nil
	}

	for _, c := range append(append([]Call{}, e.Hist...), e.Wh...) {
		if !Applicable(f.Target, c) {
			r.Status = "skip"

			return r, nil
		}
	}

	s, err := f.New()
	if err != nil {
		return r, err
	}

	defer s.CloseAll()

	tr := fmt.Sprintf("e%d", idx)

	var trace []Event

	for i, c := range e.Hist {
		normCall(&c)
		trace = append(trace, s.Step(tr, i+1, c, names))
	}

	reached := true

	if len(e.Hist) > 0 && e.Wrap == "" {
		reached = EqualPost(trace[len(trace)-1].Post, f.adapt(e.Pre))
	}

	if !reached {
		// the history passes through a deviation of the implementation: build the source state directly
		s.CloseAll()

		s, err = f.New()
		if err != nil {
			return r, err
		}

		defer s.CloseAll()

		r.How = "built"
		trace = nil

		// temporary objects cannot be rebuilt: their names are handed out by the implementation, and the
		// specification numbers them by creation (a directly built "~1" would be counted neither way)
		for _, en := range e.Pre {
			for _, c := range en.P {
				if strings.HasPrefix(c, "~") {
					r.Status = "unreach"
					r.Why = "the source state holds temporary objects and is only reachable through a deviation"

					return r, nil
				}
			}
		}

		bc := BuildCalls(e.Pre, s.NoIdm)
		if e.Call.Op != "chdir" && len(e.Cwd.Parts) > 0 && len(e.Cwd.Parts[0]) > 0 && !strings.HasPrefix(e.Cwd.Parts[0], "GETWD") {
			// the working directory belongs to the source state (unchanged by any call but chdir)
			cd := Call{Op: "chdir", P: e.Cwd}
			normCall(&cd)
			bc = append(bc, cd)
		}

		for i, c := range bc {
			if !Applicable(f.Target, c) {
				continue
			}

			ev := s.Step(tr, i+1, c, names)
			trace = append(trace, ev)

			if ev.Res.Err != "ok" {
				r.Status = "unreach"
				r.Why = "construction failed at " + c.Op + " " + c.P.Render() + ": " + ev.Res.Err
				r.Trace = trace

				return r, nil
			}
		}

		if len(trace) > 0 && !EqualPost(trace[len(trace)-1].Post, f.adapt(e.Pre)) {
			r.Status = "unreach"
			r.Why = "constructed state differs from the source state"
			r.Trace = trace

			return r, nil
		}
	}

	if e.Wrap != "" {
		trace = append(trace, s.WrapWith(tr, len(trace)+1, e.Wrap, names))

		for _, c := range e.Wh {
			normCall(&c)
			trace = append(trace, s.Step(tr, len(trace)+1, c, names))
		}

		// the source state of a wrapper edge is the state after the earlier wrapper calls; when the implementation
		// left the specification's path before, the prefix is what trace validation has to judge
		if !EqualPost(trace[len(trace)-1].Post, f.adapt(e.Pre)) {
			// (every prefix of the wrapper history is an edge of its own and is judged there; putting the
			// wrapper around the base is not, so a base that changed at that point is reported here)
			r.Status = "unreach"
			r.Why = "state before the call differs from the specification's"

			if len(e.Wh) == 0 {
				r.Status = "mismatch"
				r.Why = "creating the wrapper changed the base"
				r.Trace = trace
				r.Edge = e
			}

			return r, nil
		}
	}

	ev := s.Step(tr, len(trace)+1, e.Call, names)
	trace = append(trace, ev)

	okRes := ResEqual(e.Call.Op, ev.Res, e.Res) || ((e.Wrap == "rofs" || e.Wrap == "failro") && permClass(ev.Res.Err) && permClass(e.Res.Err))

	if e.Cons == nil {
		e.Cons = []string{}
	}

	if strings.HasPrefix(e.Wrap, "failfs") && !sameSeq(ev.Cons, e.Cons) {
		okRes = false // the primitives consulted differ from the specification's
	}
	okPost := EqualPost(ev.Post, f.adapt(e.Post))
	okCwd := ev.Cwd.Render() == e.Cwd.Render()
	okInv := ev.Inv == "ok" && ev.Srt

	if (e.Wrap == "rofs" || e.Wrap == "failro") && len(trace) > 1 && trace[len(trace)-2].Mt != ev.Mt {
		okInv = false // a modification time of the base changed under a read-only wrapper
	}

	if ev.Leak {
		okInv = false // a path handed back, or embedded in an error, shows the base path of the BasePathFS
	}

	okHs := e.Hs == nil || sameHs(ev.Hs, e.Hs)
	if e.Um != nil && *e.Um != ev.Um {
		okHs = false // the parent's umask changed
	}

	if e.Uid != nil && ev.Uid != -1 && *e.Uid != ev.Uid {
		okHs = false // the base's current user is not the one the specification expects
	}

	if okRes && okPost && okCwd && okInv && okHs {
		r.Status = "ok"

		return r, nil
	}

	// does the step equal what an open deviation of the catalogue admits (computed by TLC for this transition)?
	if okInv || ev.Inv != "ok" {
		for _, a := range e.Alts {
			if a.Impl != f.Impl() {
				continue
			}

			if a.Res.Err == "PANIC" || a.Res.Err == "DEADLOCK" {
				if ev.Res.Err == a.Res.Err {
					r.Status, r.Kf = "explained", a.Kf

					return r, nil
				}

				continue
			}

			if ResEqual(e.Call.Op, ev.Res, a.Res) && EqualPost(ev.Post, f.adapt(a.Post)) && ev.Cwd.Render() == a.Cwd.Render() &&
				sameHs(ev.Hs, a.Hs) && ev.Srt && ev.Inv == "ok" && (!ev.Leak || a.Kf != "") && !(e.Wrap != "" && len(trace) > 1 && (e.Wrap == "rofs" || e.Wrap == "failro") && trace[len(trace)-2].Mt != ev.Mt) {
				r.Status, r.Kf = "explained", a.Kf

				return r, nil
			}
		}
	}

	r.Status = "mismatch"
	r.Why = fmt.Sprintf("res=%v post=%v cwd=%v inv=%v (got err=%s want err=%s)", okRes, okPost, okCwd, okInv, ev.Res.Err, e.Res.Err)
	r.Trace = trace
	r.Edge = e

	return r, nil
}

// adapt removes from an expected projection what a target cannot show (owners without an identity manager).
func (f *Factory) adapt(es []Entry) []Entry {
	win := strings.HasSuffix(f.Target, "-win")
	if !strings.HasPrefix(f.Target, "orefafs") && !win {
		return es
	}

	out := make([]Entry, len(es))
	for i, e := range es {
		e.U, e.G = 0, 0
		if win {
			e.M = 0
		}

		out[i] = e
	}

	return out
}
