package drv

import (
	"bufio"
	"encoding/json"
	"fmt"
	"io"
	"io/fs"
	"os"
	"reflect"
	"sort"
	"strings"
	"time"

	"github.com/avfs/avfs"
	"github.com/avfs/avfs/idm/memidm"
	"github.com/avfs/avfs/vfs/basepathfs"
	"github.com/avfs/avfs/vfs/failfs"
	"github.com/avfs/avfs/vfs/memfs"
	"github.com/avfs/avfs/vfs/orefafs"
	"github.com/avfs/avfs/vfs/rofs"
)

// The totality part of C07: the specification gives every call an outcome in every state (its operators are total
// functions, which TLC establishes by evaluating them on the whole bounded universe); the implementation must
// likewise RETURN from every call. Here every exported method of every file system type, of the handles they
// return (open, closed and nil) and of the identity manager is invoked through reflection with every argument
// tuple of an adversarial domain (empties, the root, aliases, negative and huge numbers, nil slices), each on a
// freshly built instance. An outcome is "returned", a panic, or a deadlock (lock hook: the single goroutine
// asks for a lock it holds; watchdog for anything else).

// AdvOutcome is one call that did not return normally.
type AdvOutcome struct {
	Type    string `json:"type"`   // receiver, e.g. "MemFS", "MemFile(nil)", "OrefaFile(closed)"
	Method  string `json:"method"` //
	Args    string `json:"args"`
	Outcome string `json:"outcome"` // "PANIC: ..." | "DEADLOCK" | "HANG"
}

// AdvStats summarises an adversarial run.
type AdvStats struct {
	Receivers int            `json:"receivers"`
	Methods   int            `json:"methods"`
	Calls     int            `json:"calls"`
	Returned  int            `json:"returned"`
	Bad       int            `json:"bad"`
	Skipped   []string       `json:"skipped_methods"`
	PerType   map[string]int `json:"calls_per_type"`
}

var advPaths = []string{"", "/", ".", "..", "/w", "/w/a", "/w/d", "/w/d/..", "w/a", "/w/a/x", "/w/l", "/w/l/x", "/w/d/f", "/w/nope/x", "//w//a/", "/w/B", "/../w"}

var (
	tyError    = reflect.TypeOf((*error)(nil)).Elem()
	tyTime     = reflect.TypeOf(time.Time{})
	tyFileMode = reflect.TypeOf(fs.FileMode(0))
	tyWalkFn   = reflect.TypeOf(fs.WalkDirFunc(nil))
	tyUser     = reflect.TypeOf((*avfs.UserReader)(nil)).Elem()
	tyVFS      = reflect.TypeOf((*avfs.VFS)(nil)).Elem()
	tyReader   = reflect.TypeOf((*io.Reader)(nil)).Elem()
	tyFileInfo = reflect.TypeOf((*fs.FileInfo)(nil)).Elem()
)

// advDomain returns the adversarial values of a parameter type (nil when the type cannot be built).
func advDomain(t reflect.Type, pathLike bool) []reflect.Value {
	switch {
	case t == tyFileMode:
		return vals(fs.FileMode(0), fs.FileMode(0o777), fs.ModeDir|0o7777, fs.FileMode(0xFFFFFFFF))
	case t == tyTime:
		return vals(time.Time{}, time.Unix(1, 0), time.Unix(-1<<40, 0))
	case t == tyWalkFn:
		// a nil callback is a programming error that filepath.WalkDir answers with a panic as well: not in the domain
		return vals(fs.WalkDirFunc(func(string, fs.DirEntry, error) error { return nil }),
			fs.WalkDirFunc(func(string, fs.DirEntry, error) error { return fs.SkipDir }),
			fs.WalkDirFunc(func(string, fs.DirEntry, error) error { return fs.SkipAll }),
			fs.WalkDirFunc(func(_ string, _ fs.DirEntry, err error) error { return err }))
	case t == tyUser:
		i := memidm.New()
		_, _ = i.AddGroup("g")
		u, _ := i.AddUser("u", "g")

		return []reflect.Value{reflect.ValueOf(u).Convert(t), reflect.ValueOf(i.AdminUser()).Convert(t)}
	case t == tyFileInfo:
		fi, _ := memfs.New().Stat("/")

		return []reflect.Value{reflect.ValueOf(fi).Convert(t)}
	case t == tyVFS, t == tyReader:
		return nil
	}

	switch t.Kind() {
	case reflect.String:
		if pathLike {
			out := make([]reflect.Value, len(advPaths))
			for i, p := range advPaths {
				out[i] = reflect.ValueOf(p).Convert(t)
			}

			return out
		}

		return convVals(t, "", "a", "/", "[", "\x00", "root", "nope")
	case reflect.Int, reflect.Int64:
		return convVals(t, -1, 0, 1, 3, 1<<16, -1<<40)
	case reflect.Uint32, reflect.Uint64, reflect.Uintptr:
		return convVals(t, 0, 1, 1<<20)
	case reflect.Bool:
		return vals(false, true)
	case reflect.Slice:
		switch t.Elem().Kind() {
		case reflect.Uint8:
			return []reflect.Value{reflect.Zero(t), reflect.ValueOf([]byte{}).Convert(t), reflect.ValueOf([]byte{1, 2, 3}).Convert(t)}
		case reflect.String:
			return []reflect.Value{reflect.Zero(t), reflect.ValueOf([]string{"", "/", "..", "a"}).Convert(t)}
		default:
			return []reflect.Value{reflect.Zero(t)}
		}
	}

	return nil
}

func vals(xs ...any) []reflect.Value {
	out := make([]reflect.Value, len(xs))
	for i, x := range xs {
		out[i] = reflect.ValueOf(x)
	}

	return out
}

func convVals(t reflect.Type, xs ...any) []reflect.Value {
	out := make([]reflect.Value, len(xs))
	for i, x := range xs {
		out[i] = reflect.ValueOf(x).Convert(t)
	}

	return out
}

// advReceiver builds a fresh receiver.
type advReceiver struct {
	name string
	mk   func() reflect.Value
	skip map[string]bool // sanctioned or meaningless methods
}

func advTree(v avfs.VFS) {
	_ = v.MkdirAll("/w/d", 0o755)
	_ = v.MkdirAll("/w/B", 0o755)
	_ = v.WriteFile("/w/a", []byte("abc"), 0o644)
	_ = v.WriteFile("/w/d/f", []byte("x"), 0o644)

	if v.HasFeature(avfs.FeatSymlink) {
		_ = v.Symlink("l", "/w/l")
	}

	_ = v.Chdir("/w")
}

func advVFSKinds() map[string]func() avfs.VFS {
	newMem := func() avfs.VFS {
		v := memfs.NewWithOptions(&memfs.Options{Idm: memidm.New()})
		advTree(v)

		return v
	}
	newOrefa := func() avfs.VFS {
		v := orefafs.New()
		advTree(v)

		return v
	}

	return map[string]func() avfs.VFS{
		"MemFS":   newMem,
		"OrefaFS": newOrefa,
		"RoFS":    func() avfs.VFS { return rofs.New(newMem()) },
		"BasePathFS": func() avfs.VFS {
			return basepathfs.New(newMem(), "/w")
		},
		"FailFS": func() avfs.VFS { return failfs.New(newMem()) },
		"FailFS(failing)": func() avfs.VFS {
			v := failfs.New(newMem())
			_ = v.SetFailFunc(func(avfs.VFSBase, avfs.FnVFS, *failfs.FailParam) error { return avfs.ErrPermDenied })

			return v
		},
		"RoFS(OrefaFS)": func() avfs.VFS { return rofs.New(newOrefa()) },
		// a view whose own root directory was removed through the parent: every call still has to return
		"MemFS.Sub(removed)": func() avfs.VFS {
			p := newMem()

			v, err := p.Sub("/w/d")
			if err != nil {
				return p
			}

			_ = p.RemoveAll("/w/d")

			return v
		},
	}
}

func advReceivers() []advReceiver {
	var rs []advReceiver

	kinds := advVFSKinds()

	var names []string
	for n := range kinds {
		names = append(names, n)
	}

	sort.Strings(names)

	for _, n := range names {
		mkv := kinds[n]
		rs = append(rs, advReceiver{name: n, mk: func() reflect.Value { return reflect.ValueOf(mkv()) }})

		wpath := "/w/a"
		dpath := "/w/d"

		if n == "BasePathFS" {
			wpath, dpath = "/a", "/d"
		}

		open := func(p string, flag int) avfs.File {
			f, err := mkv().OpenFile(p, flag, 0o644)
			if err != nil {
				return nil
			}

			return f
		}

		rs = append(rs,
			advReceiver{name: n + ".File(open)", mk: func() reflect.Value { return reflect.ValueOf(open(wpath, os.O_RDWR)) }},
			advReceiver{name: n + ".File(readonly)", mk: func() reflect.Value { return reflect.ValueOf(open(wpath, os.O_RDONLY)) }},
			advReceiver{name: n + ".File(dir)", mk: func() reflect.Value { return reflect.ValueOf(open(dpath, os.O_RDONLY)) }},
			advReceiver{name: n + ".File(closed)", mk: func() reflect.Value {
				f := open(wpath, os.O_RDONLY)
				if f != nil {
					_ = f.Close()
				}

				return reflect.ValueOf(f)
			}},
			// whatever a file-returning method hands back TOGETHER WITH AN ERROR is a handle of the library's own making:
			// calls on it have to return too (package os hands back a nil *File, whose methods answer ErrInvalid)
			advReceiver{name: n + ".File(of a failed Create)", skip: map[string]bool{"Name": true}, mk: func() reflect.Value {
				f, err := mkv().Create("/w/missing/x")
				if err == nil || f == nil {
					return reflect.Value{}
				}

				return reflect.ValueOf(f)
			}},
			advReceiver{name: n + ".File(of a failed CreateTemp)", skip: map[string]bool{"Name": true}, mk: func() reflect.Value {
				f, err := mkv().CreateTemp("/w/missing", "x")
				if err == nil || f == nil {
					return reflect.Value{}
				}

				return reflect.ValueOf(f)
			}},
			advReceiver{name: n + ".File(of a failed OpenFile)", skip: map[string]bool{"Name": true}, mk: func() reflect.Value {
				f, err := mkv().OpenFile("/w/missing/x", os.O_RDWR|os.O_CREATE, 0o644)
				if err == nil || f == nil {
					return reflect.Value{}
				}

				return reflect.ValueOf(f)
			}},
			advReceiver{name: n + ".File(nil)", skip: map[string]bool{"Name": true}, mk: func() reflect.Value {
				f := open(wpath, os.O_RDONLY)
				if f == nil {
					return reflect.Value{}
				}

				return reflect.Zero(reflect.TypeOf(f)) // typed nil pointer
			}},
		)
	}

	rs = append(rs,
		advReceiver{name: "MemIdm", mk: func() reflect.Value {
			i := memidm.New()
			_, _ = i.AddGroup("g")
			_, _ = i.AddUser("u", "g")

			return reflect.ValueOf(i)
		}},
		advReceiver{name: "MemUser", mk: func() reflect.Value {
			i := memidm.New()
			_, _ = i.AddGroup("g")
			u, _ := i.AddUser("u", "g")

			return reflect.ValueOf(u)
		}},
		advReceiver{name: "MemGroup", mk: func() reflect.Value {
			i := memidm.New()
			g, _ := i.AddGroup("g")

			return reflect.ValueOf(g)
		}},
	)

	return rs
}

var pathParam = map[string]bool{}

// isPathMethod: string parameters of file system methods are paths unless the method is about names/patterns.
func isPathMethod(recv, method string) bool {
	if strings.HasPrefix(recv, "Mem") && !strings.HasPrefix(recv, "MemFS") {
		return false
	}

	switch method {
	case "SetUserByName", "WriteString", "VolumeAdd", "VolumeDelete":
		return false
	}

	return true
}

// Adversarial runs the whole enumeration (the methods whose index is congruent to shard) and writes the calls that
// did not return.
func Adversarial(shard, nshard int, maxTuples int, out io.Writer) (AdvStats, error) {
	InstallSelfDeadlockHook()

	st := AdvStats{PerType: map[string]int{}}
	w := bufio.NewWriter(out)

	defer w.Flush()

	enc := json.NewEncoder(w)
	idx := 0
	hangs := 0

	for _, rc := range advReceivers() {
		probe := rc.mk()
		if !probe.IsValid() || (probe.Kind() == reflect.Interface && probe.IsNil()) {
			continue
		}

		st.Receivers++
		t := probe.Type()

		for m := 0; m < t.NumMethod(); m++ {
			meth := t.Method(m)
			if rc.skip[meth.Name] {
				continue
			}

			idx++
			if idx%nshard != shard {
				continue
			}

			mt := meth.Type // first parameter is the receiver

			var doms [][]reflect.Value

			ok := true

			for p := 1; p < mt.NumIn(); p++ {
				pt := mt.In(p)
				if mt.IsVariadic() && p == mt.NumIn()-1 {
					pt = mt.In(p) // the slice itself
				}

				d := advDomain(pt, isPathMethod(rc.name, meth.Name))
				if d == nil {
					ok = false

					break
				}

				doms = append(doms, d)
			}

			if !ok {
				st.Skipped = append(st.Skipped, rc.name+"."+meth.Name)

				continue
			}

			st.Methods++

			// cartesian product, thinned deterministically when it is larger than maxTuples
			total := 1
			for _, d := range doms {
				total *= len(d)
			}

			step := 1
			if total > maxTuples {
				step = total/maxTuples + 1
			}

			for k := 0; k < total; k += step {
				args := make([]reflect.Value, len(doms))
				x := k

				for i, d := range doms {
					args[i] = d[x%len(d)]
					x /= len(d)
				}

				recv := rc.mk()
				st.Calls++
				st.PerType[rc.name]++

				outc := advCall(recv, meth, args, mt.IsVariadic())
				if outc == "" {
					// a call that returned may still have left a lock behind: the same instance must answer a
					// follow-up query (Stat of the root / Stat of the file) as well
					outc = advProbe(recv)
					if outc != "" {
						outc = "AFTER THE CALL RETURNED, " + outc
					}
				}

				if outc == "" {
					st.Returned++

					continue
				}

				st.Bad++

				_ = enc.Encode(AdvOutcome{Type: rc.name, Method: meth.Name, Args: advArgs(args), Outcome: outc})

				if outc == "HANG" {
					hangs++
					if hangs >= 4 {
						return st, nil // every hang leaves a goroutine spinning: the verdict is in
					}
				}
			}
		}
	}

	return st, nil
}

func advArgs(args []reflect.Value) string {
	var parts []string

	for _, a := range args {
		switch {
		case !a.IsValid():
			parts = append(parts, "<invalid>")
		case a.Kind() == reflect.Func:
			if a.IsNil() {
				parts = append(parts, "func(nil)")
			} else {
				parts = append(parts, "func")
			}
		case a.Kind() == reflect.Slice && a.IsNil():
			parts = append(parts, "nil")
		case (a.Kind() == reflect.Interface || a.Kind() == reflect.Pointer || a.Kind() == reflect.Map) && a.IsNil():
			parts = append(parts, "nil")
		default:
			parts = append(parts, fmt.Sprintf("%#v", a.Interface()))
		}
	}

	return strings.Join(parts, ", ")
}

// advCall performs one call under a watchdog; "" means it returned.
func advCall(recv reflect.Value, meth reflect.Method, args []reflect.Value, variadic bool) string {
	done := make(chan string, 1)

	go func() {
		defer func() {
			if r := recover(); r != nil {
				if r == errDeadlock {
					done <- "DEADLOCK"

					return
				}

				msg := fmt.Sprint(r)
				if len(msg) > 160 {
					msg = msg[:160]
				}

				done <- "PANIC: " + msg
			}
		}()

		in := append([]reflect.Value{recv}, args...)
		if variadic {
			meth.Func.CallSlice(in)
		} else {
			meth.Func.Call(in)
		}

		done <- ""
	}()

	select {
	case r := <-done:
		return r
	case <-time.After(10 * time.Second):
		return "HANG"
	}
}

var _ = tyError

// advProbe asks the receiver a harmless question after a call: a lock the call forgot to release makes it fail.
func advProbe(recv reflect.Value) string {
	if !recv.IsValid() || ((recv.Kind() == reflect.Pointer || recv.Kind() == reflect.Interface) && recv.IsNil()) {
		return ""
	}

	done := make(chan string, 1)

	go func() {
		defer func() {
			if r := recover(); r != nil {
				if r == errDeadlock {
					done <- "a follow-up call finds a lock still held (DEADLOCK)"

					return
				}

				done <- ""
			}
		}()

		switch x := recv.Interface().(type) {
		case avfs.VFS:
			_, _ = x.Stat("/")
			_, _ = x.ReadDir("/")
			_, _ = x.Stat("/w/d/f")
		case avfs.File:
			_, _ = x.Stat()
		}

		done <- ""
	}()

	select {
	case r := <-done:
		return r
	case <-time.After(10 * time.Second):
		return "a follow-up call does not return (HANG)"
	}
}
