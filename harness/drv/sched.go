//go:build verif

package drv

import (
	"bytes"
	"fmt"
	"runtime"
	"strconv"
	"sync"

	"github.com/avfs/avfs"
)

// The deterministic scheduler: the worker goroutines of a concurrent program run ONE AT A TIME; the running
// one parks at every mutex acquisition of the code under test (the verif hook is called immediately before
// Lock/RLock) and the scheduler picks who goes on. A parked goroutine is enabled when the mutex it is about
// to take is available (TryLock/TryRLock + immediate unlock - nobody else is running, so the answer is
// stable). "Every live goroutine is parked and none is enabled" is an exact deadlock verdict.

type parkReq struct {
	g     int
	mu    *sync.RWMutex
	write bool
}

type schedRun struct {
	n        int
	resume   []chan bool // true = go on, false = abort (deadlock)
	parked   []*parkReq  // request of every parked goroutine (nil = running or finished)
	finished []bool
	events   chan any // parkReq or int (goroutine finished)
	gids     map[int64]int
	gidMu    sync.Mutex
	steps    []int // goroutine chosen at every decision
	choices  []int // number of enabled goroutines at every decision
	enabled  [][]int
	locks    []string // lock events: "g:mutex-label:R|W"
	labels   map[*sync.RWMutex]string
}

func goid() int64 {
	var buf [64]byte

	n := runtime.Stack(buf[:], false)
	// "goroutine 123 ["
	f := bytes.Fields(buf[:n])
	if len(f) < 2 {
		return -1
	}

	id, _ := strconv.ParseInt(string(f[1]), 10, 64)

	return id
}

// SchedResult is the outcome of one scheduled execution.
type SchedResult struct {
	Deadlock bool
	Steps    []int   // the schedule actually taken (goroutine index per decision)
	Choices  [][]int // the enabled goroutines at each decision
	Locks    []string
}

var schedMu sync.Mutex // one scheduled run at a time per process (the hook is a process global)

// RunScheduled runs the bodies (one per goroutine) under the scheduler. choose picks the next goroutine among
// the enabled ones at every decision point (it receives the decision index and the enabled set).
func RunScheduled(bodies []func(), choose func(k int, enabled []int, prev int) int) SchedResult {
	schedMu.Lock()
	defer schedMu.Unlock()

	r := &schedRun{n: len(bodies), events: make(chan any), gids: map[int64]int{}, labels: map[*sync.RWMutex]string{}}
	r.resume = make([]chan bool, r.n)
	r.parked = make([]*parkReq, r.n)
	r.finished = make([]bool, r.n)

	avfs.VerifLockHook = func(mu any, write bool) {
		m, ok := mu.(*sync.RWMutex)
		if !ok {
			return
		}

		r.gidMu.Lock()
		g, known := r.gids[goid()]
		r.gidMu.Unlock()

		if !known {
			return // not one of the workers (set-up code, projection)
		}

		r.events <- &parkReq{g: g, mu: m, write: write}

		if !<-r.resume[g] {
			panic(errDeadlock)
		}
	}

	defer func() { avfs.VerifLockHook = nil }()

	for i := range bodies {
		r.resume[i] = make(chan bool)

		go func(i int) {
			r.gidMu.Lock()
			r.gids[goid()] = i
			r.gidMu.Unlock()

			defer func() {
				_ = recover() // errDeadlock aborts; other panics were turned into results by the session
				r.events <- i
			}()

			// start gate: every worker parks before its first instruction
			r.events <- &parkReq{g: i}

			if !<-r.resume[i] {
				return
			}

			bodies[i]()
		}(i)
	}

	// collect the start-gate requests
	for k := 0; k < r.n; k++ {
		ev := <-r.events
		if p, ok := ev.(*parkReq); ok {
			r.parked[p.g] = p
		}
	}

	res := SchedResult{}

	for {
		var enabled []int

		live := 0

		for g := 0; g < r.n; g++ {
			if r.finished[g] {
				continue
			}

			live++

			p := r.parked[g]
			if p == nil {
				continue
			}

			if p.mu == nil || available(p.mu, p.write) {
				enabled = append(enabled, g)
			}
		}

		if live == 0 {
			break
		}

		if len(enabled) == 0 {
			// every live goroutine waits for a lock nobody will release
			res.Deadlock = true

			for g := 0; g < r.n; g++ {
				if !r.finished[g] && r.parked[g] != nil {
					r.parked[g] = nil
					r.resume[g] <- false
					<-r.events // its termination
					r.finished[g] = true
				}
			}

			break
		}

		prev := -1
		if len(res.Steps) > 0 {
			prev = res.Steps[len(res.Steps)-1]
		}

		g := enabled[0]
		if len(enabled) > 1 {
			g = choose(len(res.Steps), enabled, prev)
		}

		res.Steps = append(res.Steps, g)
		res.Choices = append(res.Choices, enabled)

		if p := r.parked[g]; p != nil && p.mu != nil {
			mode := "R"
			if p.write {
				mode = "W"
			}

			res.Locks = append(res.Locks, fmt.Sprintf("%d:%p:%s", g, p.mu, mode))
		}

		r.parked[g] = nil
		r.resume[g] <- true

		// the chosen goroutine runs until it parks again or finishes
		switch ev := (<-r.events).(type) {
		case *parkReq:
			r.parked[ev.g] = ev
		case int:
			r.finished[ev] = true
		}
	}

	return res
}

func available(m *sync.RWMutex, write bool) bool {
	if write {
		if m.TryLock() {
			m.Unlock()

			return true
		}

		return false
	}

	if m.TryRLock() {
		m.RUnlock()

		return true
	}

	return false
}
