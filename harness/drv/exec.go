package drv

import (
	"errors"
	"fmt"
	"io"
	"io/fs"
	"math"
	"os"
	"path/filepath"
	"sort"
	"strings"
	"sync/atomic"
	"syscall"
	"time"

	"github.com/avfs/avfs"
)

// Session is one file system under test plus the handles opened through it.
type Session struct {
	Target string
	FS     avfs.VFS // the file system the calls go through
	Base   avfs.VFS // the file system the projection reads (differs from FS under a wrapper)
	Wrap   string   // wrapper kind, "" when none
	Hs     []avfs.File
	Tmp    map[string]string // real temp name -> abstract name
	NoIdm  bool              // owners are not compared
	NoSym  bool
	// NoRootList: the root directory cannot be listed (OrefaFS); the projection probes root names instead.
	NoRootList bool
	// AsUser, when set, runs fn with the credentials of the acting user (osfs only).
	AsUser func(uid, gid int, groups []int, fn func())
	Cred   *Cred
	// Check, when set, returns the verdict of the internal invariant checker.
	Check func() string
	// Dead is set after a panic or deadlock: the instance may hold locks.
	Dead bool
	// Diverged is set when a plan refers to a temporary name that this run never created.
	Diverged bool
	// FailFS wrapper state: the plan "the K-th consultation of primitive Fn fails", the counters, the
	// consultations of the current call, and a switch that silences the wrapper while the driver observes.
	FailFn    string
	FailK     int
	failCount map[string]int
	cons      []string
	quiet     bool
	// BasePathFS: the base path (must never show up in results or errors) and whether it did during the call
	BasePath  string
	leak      bool
	opHasBase bool     // an operand of the current call contains the base path as a string
	SubDir    string   // directory of the Sub view the calls go through
	SubDir2   string   // directory of a second view of the same parent ("" = none); calls with V == 8 go through it
	FS2       avfs.VFS // the second view
	// Inline makes Exec run the call on the calling goroutine (no per-call watchdog)
	Inline bool
	// ProjFS, when set, is the administrator's file system the projection reads through (the acting user may not
	// be allowed to look everywhere)
	ProjFS avfs.VFS
	// CwdFS, when set, is the view whose working directory the projection reports (the acting user's view)
	CwdFS avfs.VFS
	Win   bool // a Windows-typed file system: C:\ paths, modes and owners are not compared
}

// Cred is the acting user of the session (nil = administrator).
type Cred struct {
	Uid, Gid int
	Groups   []int
}

var errnoNames = map[uintptr]string{
	1: "EPERM", 2: "ENOENT", 9: "EBADF", 13: "EACCES", 16: "EBUSY", 17: "EEXIST", 18: "EXDEV", 20: "ENOTDIR",
	21: "EISDIR", 22: "EINVAL", 39: "ENOTEMPTY", 40: "ELOOP", 36: "ENAMETOOLONG", 26: "ETXTBSY", 5: "EIO",
	28: "ENOSPC", 30: "EROFS", 31: "EMLINK",
}

// winSession is set once a factory for a Windows-typed target exists: a driver process serves one target.
var winSession bool

// ErrName maps an error to the abstract error vocabulary of the specification.
func ErrName(err error) string {
	if err == nil {
		return "ok"
	}

	if err == io.EOF {
		return "EOF"
	}

	orig := err

	for {
		switch e := err.(type) {
		case *fs.PathError:
			err = e.Err

			continue
		case *os.LinkError:
			err = e.Err

			continue
		case *os.SyscallError:
			err = e.Err

			continue
		}

		break
	}

	switch e := err.(type) {
	case avfs.LinuxError:
		if n, ok := errnoNames[uintptr(e)]; ok {
			if winSession {
				return "LINUX-" + n // a Linux error value out of a Windows-typed file system
			}

			return n
		}

		return fmt.Sprintf("ERRNO%d", uintptr(e))
	case syscall.Errno:
		if n, ok := errnoNames[uintptr(e)]; ok {
			return n
		}

		return fmt.Sprintf("ERRNO%d", uintptr(e))
	case avfs.WindowsError:
		return "WIN"
	}

	switch {
	case err == ErrInjected:
		if orig != ErrInjected {
			return "EINJECTED-WRAPPED" // C12: "exactly that error is returned" - not one that merely contains it
		}

		return "EINJECTED"
	case err == io.EOF:
		return "EOF"
	case err == avfs.ErrNegativeOffset || err.Error() == "negative offset":
		return "NEGOFF"
	case err == avfs.ErrFileClosing || errors.Is(err, fs.ErrClosed) || err.Error() == "use of closed file":
		return "CLOSED"
	case err == fs.ErrInvalid || errors.Is(err, fs.ErrInvalid):
		return "EINVALH"
	case errors.Is(err, filepath.ErrBadPattern):
		return "EBADPAT"
	case err == avfs.ErrPatternHasSeparator || strings.Contains(err.Error(), "pattern contains path separator"):
		return "EPATSEP"
	case strings.Contains(err.Error(), "too many links"):
		return "ELOOP"
	case strings.Contains(err.Error(), "invalid use of WriteAt on file opened with O_APPEND"):
		return "EAPPENDAT"
	case errors.Is(err, fs.ErrExist):
		return "EEXIST"
	}

	return "OTHER:" + err.Error()
}

var flagBits = map[string]int{
	"RDONLY": os.O_RDONLY, "WRONLY": os.O_WRONLY, "RDWR": os.O_RDWR, "APPEND": os.O_APPEND,
	"CREATE": os.O_CREATE, "EXCL": os.O_EXCL, "TRUNC": os.O_TRUNC,
}

func flagsOf(fl []string) int {
	f := 0
	for _, s := range fl {
		f |= flagBits[s]
	}

	return f
}

// ModeOf converts unix-style mode bits (with 04000/02000/01000) to fs.FileMode.
func ModeOf(m int) fs.FileMode {
	fm := fs.FileMode(m & 0o777)
	if m&0o4000 != 0 {
		fm |= fs.ModeSetuid
	}

	if m&0o2000 != 0 {
		fm |= fs.ModeSetgid
	}

	if m&0o1000 != 0 {
		fm |= fs.ModeSticky
	}

	return fm
}

// UnixMode converts fs.FileMode to unix-style permission bits.
func UnixMode(fm fs.FileMode) int {
	m := int(fm.Perm())
	if fm&fs.ModeSetuid != 0 {
		m |= 0o4000
	}

	if fm&fs.ModeSetgid != 0 {
		m |= 0o2000
	}

	if fm&fs.ModeSticky != 0 {
		m |= 0o1000
	}

	return m
}

func bytesOf(d []int) []byte {
	b := make([]byte, len(d))
	for i, x := range d {
		b[i] = byte(x)
	}

	return b
}

func intsOf(b []byte) []int {
	d := make([]int, len(b))
	for i, x := range b {
		d[i] = int(x)
	}

	return d
}

func kindOf(m fs.FileMode) string {
	switch {
	case m.IsDir():
		return "dir"
	case m&fs.ModeSymlink != 0:
		return "link"
	case m.IsRegular():
		return "file"
	}

	return "other"
}

func (s *Session) infoOf(fi fs.FileInfo) Info {
	in := Info{K: kindOf(fi.Mode()), M: UnixMode(fi.Mode())}
	if s.Win {
		in.M = 0
	}

	if in.K == "file" {
		in.Sz = int(fi.Size())
	}

	func() {
		defer func() { _ = recover() }()

		st := s.base().ToSysStat(fi)
		if !s.NoIdm && !s.Win {
			in.U, in.G = st.Uid(), st.Gid()
		}

		if in.K == "file" {
			in.Nl = int(st.Nlink())
		}
	}()

	return in
}

func (s *Session) handle(i int) avfs.File {
	if i < 1 || i > len(s.Hs) {
		return nil
	}

	return s.Hs[i-1]
}

func (s *Session) abstractName(real string) string {
	if a, ok := s.Tmp[real]; ok {
		return a
	}

	return real
}

// checkLeak looks for the base path of a BasePathFS in the path fields of an error.
func (s *Session) checkLeak(err error) {
	if s.BasePath == "" || err == nil {
		return
	}

	var fields []string

	switch e := err.(type) {
	case *fs.PathError:
		fields = []string{e.Path}
	case *os.LinkError:
		fields = []string{e.Old, e.New}
	}

	for _, f := range fields {
		s.leakIn(f)
	}
}

func (s *Session) leakIn(str string) {
	if s.BasePath != "" && !s.opHasBase && strings.Contains(str, s.BasePath) {
		s.leak = true
	}
}

// abstractPath maps the real temporary names inside a concrete path to their abstract names.
func (s *Session) abstractPath(t string) Path {
	// (a returned path is compared with the specification's, which is virtual: only the path fields of errors, which
	// nothing else looks at, are scanned for the base path - a virtual tree may itself contain B's own path)
	p := ParsePath(t)

	if s.Win {
		p = ParsePathWin(t)
	}

	for i, c := range p.Parts {
		p.Parts[i] = s.abstractName(c)
	}

	return p
}

// rendering of abstract temp names back to real ones in path operands.
func (s *Session) render(p Path) string {
	q := Path{Abs: p.Abs, Parts: make([]string, len(p.Parts))}

	for i, c := range p.Parts {
		q.Parts[i] = c

		if strings.HasPrefix(c, "~") {
			found := false

			for real, abs := range s.Tmp {
				if abs == c {
					q.Parts[i] = real
					found = true
				}
			}

			if !found {
				// the plan names a temporary object this run never created: the run has left the plan
				s.Diverged = true
			}
		}
	}

	if s.Win {
		return q.RenderWin()
	}

	return q.Render()
}

// Exec executes one abstract call under a panic guard and returns the abstract result.
func (s *Session) Exec(c Call) (res Res) {
	res = NewRes("ok")

	if s.Dead {
		res.Err = "DEAD"

		return res
	}

	defer func() {
		if r := recover(); r != nil {
			if r == errDeadlock {
				res = NewRes("DEADLOCK")
			} else {
				res = NewRes("PANIC")
				res.Names = []string{fmt.Sprint(r)}
			}

			s.Dead = true
		}
	}()

	run := func(fn func()) {
		if s.Cred != nil && s.AsUser != nil {
			s.AsUser(s.Cred.Uid, s.Cred.Gid, s.Cred.Groups, fn)
		} else {
			fn()
		}
	}

	if s.AsUser != nil || s.Inline {
		// the kernel reference: credentials are switched on the calling thread, and the kernel does not hang;
		// scheduled and free-running programs have their own watchdog and identify goroutines
		run(func() { s.exec(c, &res) })

		return res
	}

	// in-memory targets: a call that never returns (an endless loop in the code under test) must not take the
	// whole run with it - it is reported as HANG after a watchdog delay; the instance is not used any more
	done := make(chan Res, 1)

	go func() {
		r := NewRes("ok")

		defer func() {
			if rec := recover(); rec != nil {
				if rec == errDeadlock {
					r = NewRes("DEADLOCK")
				} else {
					r = NewRes("PANIC")
					r.Names = []string{fmt.Sprint(rec)}
				}
			}

			done <- r
		}()

		s.exec(c, &r)
	}()

	select {
	case res = <-done:
		if res.Err == "PANIC" || res.Err == "DEADLOCK" {
			s.Dead = true
		}
	case <-time.After(hangDelay):
		res = NewRes("HANG")
		s.Dead = true

		atomic.AddInt32(&HangCount, 1)
	}

	return res
}

// HangCount counts the calls that did not return: each leaves a goroutine spinning, so a run gives up after a few.
var HangCount int32

// hangDelay is how long a single call of an in-memory file system may take before it counts as a hang.
const hangDelay = 20 * time.Second

func (s *Session) exec(c Call, res *Res) {
	vfs := s.FS
	if c.V == 9 && s.Wrap == "sub" && s.Base != nil {
		vfs = s.Base // a call on the parent of the view (C11's interleavings)
	}

	if c.V == 8 && s.Wrap == "sub" && s.FS2 != nil {
		vfs = s.FS2 // a call through the second view
	}
	p := s.render(c.P)
	q := s.render(c.Q)
	// a virtual path that itself spells the base path says nothing when it comes back
	s.opHasBase = s.BasePath != "" && (strings.Contains(p, s.BasePath) || strings.Contains(q, s.BasePath))

	setErr := func(err error) {
		res.Err = ErrName(err)
		s.checkLeak(err)
	}

	switch c.Op {
	case "mkdir":
		setErr(vfs.Mkdir(p, ModeOf(c.Perm)))
	case "mkdirall":
		setErr(vfs.MkdirAll(p, ModeOf(c.Perm)))
	case "openclose":
		f, err := vfs.OpenFile(p, flagsOf(c.Flag), ModeOf(c.Perm))
		setErr(err)

		if err == nil {
			if cerr := f.Close(); cerr != nil && s.Wrap != "" {
				setErr(cerr)
			}
		}
	case "open":
		f, err := vfs.OpenFile(p, flagsOf(c.Flag), ModeOf(c.Perm))
		setErr(err)

		if err == nil {
			s.Hs = append(s.Hs, f)
			res.N = len(s.Hs)
		}
	case "create":
		f, err := vfs.Create(p)
		setErr(err)

		if err == nil {
			if cerr := f.Close(); cerr != nil && s.Wrap != "" {
				setErr(cerr)
			}
		}
	case "writefile":
		setErr(vfs.WriteFile(p, bytesOf(c.Data), ModeOf(c.Perm)))
	case "createtemp", "mkdirtemp":
		pattern := "t*"
		var (
			name string
			err  error
		)

		if c.Op == "createtemp" {
			var f avfs.File

			f, err = vfs.CreateTemp(p, pattern)
			if err == nil {
				name = f.Name()
				_ = f.Close()
			}
		} else {
			name, err = vfs.MkdirTemp(p, pattern)
		}

		setErr(err)

		if err == nil {
			dir, base := vfs.Split(name)
			ok := strings.HasPrefix(base, "t") && len(base) > 1 && vfs.Clean(dir) == vfs.Clean(p)

			if s.Win {
				// the helpers of the Windows flavour are the subject of C13, not of this comparison
				ok = strings.HasPrefix(base, "t") && len(base) > 1
			}
			if _, dup := s.Tmp[base]; dup {
				ok = false
			}

			if s.Tmp == nil {
				s.Tmp = map[string]string{}
			}

			s.Tmp[base] = fmt.Sprintf("~%d", len(s.Tmp)+1)
			res.Names = []string{s.Tmp[base]}

			if ok {
				res.N = 1
			}
		}
	case "remove":
		setErr(vfs.Remove(p))
	case "removeall":
		setErr(vfs.RemoveAll(p))
	case "rename":
		setErr(vfs.Rename(p, q))
	case "link":
		setErr(vfs.Link(p, q))
	case "symlink":
		// P is the new link name, Q the target.
		setErr(vfs.Symlink(q, p))
	case "truncate":
		setErr(vfs.Truncate(p, int64(c.N)))
	case "chmod":
		setErr(vfs.Chmod(p, ModeOf(c.Perm)))
	case "chown":
		setErr(vfs.Chown(p, c.Uid, c.Gid))
	case "lchown":
		setErr(vfs.Lchown(p, c.Uid, c.Gid))
	case "chtimes":
		t := time.Unix(int64(1_000_000+c.N), 0)
		setErr(vfs.Chtimes(p, t, t))
	case "chdir":
		setErr(vfs.Chdir(p))
	case "setuser":
		setErr(s.setUser(c.Uid, c.Gid))
	case "setumask":
		setErr(vfs.SetUMask(fs.FileMode(c.Perm)))
	case "glob":
		ms, err := vfs.Glob(p)
		setErr(err)

		for _, m := range ms {
			res.Names = append(res.Names, s.abstractPath(m).Render())
		}

		res.N = len(ms)

		if !s.HasMetaPattern(c.P) {
			res.N = 0
		}
	case "walk":
		// a callback that answers SkipDir / SkipAll / an error at visit number N and hands back the errors it is given
		action := ""
		if len(c.Flag) > 0 {
			action = c.Flag[0]
		}

		visits := 0
		werr := vfs.WalkDir(p, func(path string, d fs.DirEntry, err error) error {
			visits++
			res.Names = append(res.Names, s.abstractPath(path).Render())

			if err != nil {
				if action == "ErrSkip" {
					return fs.SkipDir // skip what cannot be read and go on
				}

				return err
			}

			if c.N != 0 && visits == c.N {
				switch action {
				case "SkipDir":
					return fs.SkipDir
				case "SkipAll":
					return fs.SkipAll
				case "Err":
					return errCallback
				}
			}

			return nil
		})

		switch {
		case werr == errCallback:
			res.Err = "ECALLBACK"
		case werr == fs.SkipAll:
			res.Err = "ESKIPALL"
		case werr == fs.SkipDir:
			res.Err = "ESKIPDIR"
		default:
			setErr(werr)
		}

		res.N = len(res.Names)

		if res.Err != "ok" && res.Err != "ECALLBACK" {
			res.N = 0
		}
	case "exists", "direxists", "isdir", "isempty":
		var (
			b   bool
			err error
		)

		switch c.Op {
		case "exists":
			b, err = avfs.Exists(vfs, p)
		case "direxists":
			b, err = avfs.DirExists(vfs, p)
		case "isdir":
			b, err = avfs.IsDir(vfs, p)
		case "isempty":
			b, err = avfs.IsEmpty(vfs, p)
		}

		setErr(err)

		if err != nil && strings.Contains(err.Error(), "path does not exist") {
			res.Err = "ENOEXIST"
		}

		if b {
			res.N = 1
		}
	case "osinfo":
		res.Names = []string{vfs.OSType().String(), string(vfs.PathSeparator())}
	case "subwrite", "submkdir":
		// Sub(dir), then a mutator through the file system it returns
		sub, err := vfs.Sub(p)
		setErr(err)

		if err == nil {
			if c.Op == "subwrite" {
				setErr(sub.WriteFile(string(vfs.PathSeparator())+q, bytesOf(c.Data), 0o644))
			} else {
				setErr(sub.Mkdir("/"+q, 0o755))
			}
		}
	case "stat", "lstat":
		var (
			fi  fs.FileInfo
			err error
		)

		if c.Op == "stat" {
			fi, err = vfs.Stat(p)
		} else {
			fi, err = vfs.Lstat(p)
		}

		setErr(err)

		if err == nil {
			res.Info = s.infoOf(fi)
		}
	case "readlink":
		t, err := vfs.Readlink(p)
		setErr(err)

		if err == nil {
			res.Path = s.abstractPath(t)
		}
	case "evalsymlinks":
		t, err := vfs.EvalSymlinks(p)
		setErr(err)

		if err == nil {
			res.Path = s.abstractPath(t)
		}
	case "abs":
		t, err := vfs.Abs(p)
		setErr(err)

		if err == nil {
			res.Path = s.abstractPath(t)
		}
	case "vsetuser", "vsetuserbyname":
		// SetUser / SetUserByName as methods of the file system under test (through the wrapper, if any)
		u, err := s.idmUser(c.Uid)
		if err != nil {
			panic(err)
		}

		if c.Uid != 0 && s.ProjFS == nil && s.Base != nil {
			// the projection keeps reading as the administrator: through a view made before the user changes
			if view, err := s.Base.Sub("/"); err == nil {
				s.ProjFS, s.CwdFS = view, s.Base
			}
		}

		if c.Op == "vsetuser" {
			setErr(vfs.SetUser(u))
		} else {
			setErr(vfs.SetUserByName(u.Name()))
		}
	case "getwd":
		t, err := vfs.Getwd()
		setErr(err)

		if err == nil {
			res.Path = s.abstractPath(t)
		}
	case "readdir":
		des, err := vfs.ReadDir(p)
		setErr(err)

		if err == nil {
			for _, de := range des {
				res.Names = append(res.Names, s.abstractName(de.Name()))
			}

			res.N = len(des)
		}
	case "readfile":
		b, err := vfs.ReadFile(p)
		setErr(err)

		if err == nil {
			res.Data = intsOf(b)
			res.N = len(b)
		}
	default:
		s.execHandle(c, res)
	}
}

func (s *Session) execHandle(c Call, res *Res) {
	f := s.handle(c.H)
	setErr := func(err error) { res.Err = ErrName(err) }

	if f == nil {
		res.Err = "NOHANDLE"

		return
	}

	switch c.Op {
	case "read":
		b := make([]byte, c.N)
		n, err := f.Read(b)
		setErr(err)
		res.N = n
		res.Data = intsOf(b[:n])
	case "readat":
		b := make([]byte, c.N)
		n, err := f.ReadAt(b, int64(c.Off))
		setErr(err)
		res.N = n
		res.Data = intsOf(b[:n])
	case "write":
		n, err := f.Write(bytesOf(c.Data))
		setErr(err)
		res.N = n
	case "writestring":
		n, err := f.WriteString(string(bytesOf(c.Data)))
		setErr(err)
		res.N = n
	case "writeat":
		n, err := f.WriteAt(bytesOf(c.Data), int64(c.Off))
		setErr(err)
		res.N = n
	case "seek":
		n, err := f.Seek(int64(c.Off), c.Wh)
		setErr(err)
		res.N = int(n)
	case "ftruncate":
		setErr(f.Truncate(int64(c.N)))
	case "fstat":
		fi, err := f.Stat()
		setErr(err)

		if err == nil {
			res.Info = s.infoOf(fi)
		}
	case "fsync":
		setErr(f.Sync())
	case "fchmod":
		setErr(f.Chmod(ModeOf(c.Perm)))
	case "fchown":
		setErr(f.Chown(c.Uid, c.Gid))
	case "fchdir":
		setErr(f.Chdir())
	case "close":
		setErr(f.Close())
	case "freaddir":
		des, err := f.ReadDir(countOf(c.N))
		setErr(err)

		for _, de := range des {
			res.Names = append(res.Names, s.abstractName(de.Name()))
		}

		sort.Strings(res.Names)
		res.N = len(des)
	case "freaddirnames":
		ns, err := f.Readdirnames(countOf(c.N))
		setErr(err)

		for _, n := range ns {
			res.Names = append(res.Names, s.abstractName(n))
		}

		sort.Strings(res.Names)
		res.N = len(ns)
	default:
		res.Err = "UNKNOWNOP:" + c.Op
	}
}

// CloseAll closes every handle of the session (ignoring errors).
func (s *Session) CloseAll() {
	for _, f := range s.Hs {
		func() {
			defer func() { _ = recover() }()

			if f != nil {
				_ = f.Close()
			}
		}()
	}

	s.Hs = nil
}

var errDeadlock = errors.New("verif: self-deadlock detected")

var errCallback = errors.New("verif: callback error")

// HasMetaPattern tells whether a glob pattern has a magic character.
func (s *Session) HasMetaPattern(p Path) bool {
	return strings.ContainsAny(strings.Join(p.Parts, "/"), "*?[\\")
}

// ErrInjected is the error a FailFS plan injects.
var ErrInjected = errors.New("verif: injected failure")

// setUser changes the acting identity (C03). The kernel reference switches the file-system credentials of the
// thread around every later call; a MemFS gets a view of its own (Sub("/")) acting as the MemIdm user with that
// uid, while the projection keeps reading through the administrator's file system. MemIdm hands out ids from
// 1001 in creation order: g1/u1 = 1001, g2/u2 = 1002.
func (s *Session) setUser(uid, gid int) error {
	if s.AsUser != nil {
		s.Cred = nil
		if uid != 0 {
			s.Cred = &Cred{Uid: uid, Gid: gid, Groups: []int{}}
		}

		return nil
	}

	root := s.base()
	if s.ProjFS != nil {
		root = s.ProjFS
	}

	idm := root.Idm()

	if idm == nil || !root.HasFeature(avfs.FeatIdentityMgr) {
		return fmt.Errorf("target has no identity manager")
	}

	for _, n := range []string{"1", "2"} {
		if _, err := idm.LookupGroup("g" + n); err != nil {
			if _, err := idm.AddGroup("g" + n); err != nil {
				return err
			}
		}

		if _, err := idm.LookupUser("u" + n); err != nil {
			if _, err := idm.AddUser("u"+n, "g"+n); err != nil {
				return err
			}
		}
	}

	u := idm.AdminUser()

	if uid != 0 {
		var err error

		u, err = idm.LookupUserId(uid)
		if err != nil {
			return err
		}

		if u.Gid() != gid {
			return fmt.Errorf("user %d has group %d, the plan wants %d", uid, u.Gid(), gid)
		}
	}

	if s.ProjFS == nil {
		view, err := s.FS.Sub("/")
		if err != nil {
			return err
		}

		s.ProjFS, s.FS, s.CwdFS = s.FS, view, view
	}

	return s.FS.SetUser(u)
}

// idmUser returns the user with the given id of the base's identity manager (u1 = 1001, u2 = 1002 are created on demand).
func (s *Session) idmUser(uid int) (avfs.UserReader, error) {
	idm := s.base().Idm()
	if idm == nil || !s.base().HasFeature(avfs.FeatIdentityMgr) {
		return nil, fmt.Errorf("target has no identity manager")
	}

	for _, n := range []string{"1", "2"} {
		if _, err := idm.LookupGroup("g" + n); err != nil {
			if _, err := idm.AddGroup("g" + n); err != nil {
				return nil, err
			}
		}

		if _, err := idm.LookupUser("u" + n); err != nil {
			if _, err := idm.AddUser("u"+n, "g"+n); err != nil {
				return nil, err
			}
		}
	}

	if uid == 0 {
		return idm.AdminUser(), nil
	}

	return idm.LookupUserId(uid)
}

// countOf maps the specification's stand-in for "the largest int" (TLC integers are 32 bits wide).
func countOf(n int) int {
	if n >= 1000000 {
		return math.MaxInt
	}

	return n
}
