package drv

import (
	"fmt"
	"io"
	"io/fs"

	"github.com/avfs/avfs"
	"sort"
	"strings"
)

const maxDepth = 10

// Snapshot is the full observable state after a step.
type Snapshot struct {
	Post []Entry
	Srt  bool // every listing was sorted and duplicate free
	Cwd  Path
	Hs   []HandleView
}

// Project walks the whole tree through the public API only (ReadDir + Lstat + ReadFile +
// Readlink + ToSysStat + SameFile) and returns the canonical path-indexed projection.
// names is the universe of names probed for "Lstat succeeds but not listed".
func (s *Session) Project(names []string) (snap Snapshot) {
	snap.Srt = true
	snap.Post = []Entry{}

	if s.Dead {
		return snap
	}

	defer func() {
		if r := recover(); r != nil {
			snap.Post = append(snap.Post, Entry{P: []string{"PANIC-IN-PROJECTION"}, K: "PANIC", D: []int{}, T: Path{Parts: []string{}}, Same: [][]string{}})
			s.Dead = true
		}
	}()

	type finfo struct {
		idx int
		fi  fs.FileInfo
	}

	var files []finfo

	var walk func(parts []string, dir string, depth int)

	walk = func(parts []string, dir string, depth int) {
		rd := dir
		if rd == "" {
			rd = "/"
		}

		if s.Win {
			rd = WinVolume + strings.ReplaceAll(rd, "/", "\\")
		}

		des, err := s.base().ReadDir(rd)
		if dir == "" && s.NoRootList {
			des, err = s.probeRoot(names)
		}

		if err != nil {
			snap.Post = append(snap.Post, Entry{P: append(append([]string{}, parts...), "READDIR-"+ErrName(err)), K: "ERR", D: []int{}, T: Path{Parts: []string{}}, Same: [][]string{}})

			return
		}

		listed := map[string]bool{}
		prev := ""

		for i, de := range des {
			n := de.Name()
			if i > 0 && n <= prev {
				snap.Srt = false
			}

			prev = n
			listed[n] = true
		}

		for _, n := range names {
			if listed[n] {
				continue
			}

			hp := dir + "/" + n
			if s.Win {
				hp = WinVolume + strings.ReplaceAll(hp, "/", "\\")
			}

			if _, err := s.base().Lstat(hp); err == nil {
				snap.Post = append(snap.Post, Entry{P: append(append([]string{}, parts...), s.abstractName(n)), K: "HIDDEN", D: []int{}, T: Path{Parts: []string{}}, Same: [][]string{}})
			}
		}

		for _, de := range des {
			n := de.Name()
			cp := append(append([]string{}, parts...), s.abstractName(n))
			full := dir + "/" + n
			fullOS := full

			if s.Win {
				fullOS = WinVolume + strings.ReplaceAll(full, "/", "\\")
			}

			e := Entry{P: cp, D: []int{}, T: Path{Parts: []string{}}, Same: [][]string{}}

			fi, err := s.base().Lstat(fullOS)
			if err != nil {
				e.K = "GHOST"
				snap.Post = append(snap.Post, e)

				continue
			}

			in := s.infoOf(fi)
			e.K, e.M, e.U, e.G, e.Nl = in.K, in.M, in.U, in.G, in.Nl

			if kindOf(de.Type()) != in.K {
				e.K = "TYPE-MISMATCH"
			}

			switch in.K {
			case "file":
				b, err := s.base().ReadFile(fullOS)
				if err != nil {
					e.K = "READFILE-" + ErrName(err)
				}

				e.D = intsOf(b)
				if len(b) != int(fi.Size()) {
					e.K = "SIZE-MISMATCH"
				}

				files = append(files, finfo{idx: len(snap.Post), fi: fi})
			case "link":
				t, err := s.base().Readlink(fullOS)
				if err != nil {
					e.K = "READLINK-" + ErrName(err)
				}

				e.T = s.abstractPath(t)
			}

			snap.Post = append(snap.Post, e)

			if in.K == "dir" {
				if depth >= maxDepth {
					snap.Post = append(snap.Post, Entry{P: append(cp, "CYCLE"), K: "CYCLE", D: []int{}, T: Path{Parts: []string{}}, Same: [][]string{}})

					continue
				}

				walk(cp, full, depth+1)
			}
		}
	}

	walk([]string{}, "", 0)

	// SameFile classes of regular files.
	for i := range files {
		var same [][]string

		for j := range files {
			if s.base().SameFile(files[i].fi, files[j].fi) {
				same = append(same, snap.Post[files[j].idx].P)
			}
		}

		sort.Slice(same, func(a, b int) bool { return strings.Join(same[a], "/") < strings.Join(same[b], "/") })
		snap.Post[files[i].idx].Same = same
	}

	sort.Slice(snap.Post, func(a, b int) bool {
		return strings.Join(snap.Post[a].P, "/") < strings.Join(snap.Post[b].P, "/")
	})

	cw := s.base()
	if s.CwdFS != nil {
		cw = s.CwdFS
	}

	if wd, err := cw.Getwd(); err == nil {
		snap.Cwd = s.abstractPath(wd)
	} else {
		snap.Cwd = Path{Parts: []string{"GETWD-" + ErrName(err)}}
	}

	snap.Hs = []HandleView{}

	for _, f := range s.Hs {
		hv := HandleView{K: "none", Off: -1}

		func() {
			defer func() {
				if r := recover(); r != nil {
					hv.K = "PANIC"
				}
			}()

			fi, err := f.Stat()
			if err == nil {
				in := s.infoOf(fi)
				hv = HandleView{Open: true, K: in.K, Sz: in.Sz, Nl: in.Nl, M: in.M, Off: -1}

				if in.K != "dir" {
					if off, err := f.Seek(0, io.SeekCurrent); err == nil {
						hv.Off = int(off)
					}
				}
			}
		}()

		snap.Hs = append(snap.Hs, hv)
	}

	return snap
}

type probedEntry struct{ fs.FileInfo }

func (p probedEntry) Type() fs.FileMode          { return p.Mode().Type() }
func (p probedEntry) Info() (fs.FileInfo, error) { return p.FileInfo, nil }

// probeRoot stands in for ReadDir("/") on a file system that cannot list its root.
func (s *Session) probeRoot(names []string) ([]fs.DirEntry, error) {
	var des []fs.DirEntry

	cand := append([]string{WorkDir}, names...)
	// a plan may reuse the (random) name of a temporary object directly below the root
	for real := range s.Tmp {
		cand = append(cand, real)
	}

	sort.Strings(cand)

	for i, n := range cand {
		if i > 0 && cand[i-1] == n {
			continue
		}

		rp := "/" + n
		if s.Win {
			rp = WinVolume + "\\" + n
		}

		if fi, err := s.base().Lstat(rp); err == nil {
			des = append(des, probedEntry{fi})
		}
	}

	return des, nil
}

func (s *Session) base() avfs.VFS {
	if s.ProjFS != nil {
		return s.ProjFS
	}

	if s.Base != nil {
		return s.Base
	}

	return s.FS
}

// MtimeDigest summarises every modification time of the base tree.
func (s *Session) MtimeDigest() string {
	h := uint64(14695981039346656037)

	var walk func(dir string, depth int)

	walk = func(dir string, depth int) {
		rd := dir
		if rd == "" {
			rd = "/" + WorkDir
		}

		fi, err := s.base().Lstat(rd)
		if err != nil {
			return
		}

		for _, b := range []byte(rd + fi.ModTime().String()) {
			h = (h ^ uint64(b)) * 1099511628211
		}

		if !fi.IsDir() || depth > maxDepth {
			return
		}

		des, err := s.base().ReadDir(rd)
		if err != nil {
			return
		}

		for _, de := range des {
			walk(rd+"/"+de.Name(), depth+1)
		}
	}

	walk("", 0)

	return fmt.Sprintf("%x", h)
}

// EqualPost compares two projections.
func EqualPost(a, b []Entry) bool {
	if len(a) != len(b) {
		return false
	}

	as, bs := canon(a), canon(b)
	for i := range as {
		if as[i] != bs[i] {
			return false
		}
	}

	return true
}

func canon(es []Entry) []string {
	out := make([]string, len(es))

	for i, e := range es {
		same := make([]string, len(e.Same))
		for j, p := range e.Same {
			same[j] = strings.Join(p, "/")
		}

		sort.Strings(same)

		var sb strings.Builder

		sb.WriteString(strings.Join(e.P, "/"))
		sb.WriteString("|" + e.K + "|")
		sb.WriteString(itoa(e.M) + "|" + itoa(e.U) + "|" + itoa(e.G) + "|" + itoa(e.Nl) + "|")

		for _, d := range e.D {
			sb.WriteString(itoa(d) + ",")
		}

		sb.WriteString("|" + e.T.Render() + "|" + strings.Join(same, ";"))
		out[i] = sb.String()
	}

	sort.Strings(out)

	return out
}

func itoa(i int) string {
	if i == 0 {
		return "0"
	}

	neg := i < 0
	if neg {
		i = -i
	}

	var b [20]byte

	n := len(b)
	for i > 0 {
		n--
		b[n] = byte('0' + i%10)
		i /= 10
	}

	if neg {
		n--
		b[n] = '-'
	}

	return string(b[n:])
}
