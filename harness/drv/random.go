package drv

import (
	"bufio"
	"encoding/json"
	"fmt"
	"io"
	"math/rand"
	"strings"
)

// Plan is a named sequence of abstract calls.
type Plan struct {
	Name  string `json:"name"`
	Calls []Call `json:"calls"`
}

// GenOpts configures the random, state-aware plan generator.
type GenOpts struct {
	Names    []string // universe of names
	Depth    int      // maximum depth below the work directory
	Len      int      // calls per plan
	Sym      bool     // symbolic links, lchown
	Own      bool     // chown
	Handles  bool     // handle operations
	Unclean  bool     // unclean spellings of path operands
	Relative bool     // relative paths and chdir
	Perm     bool     // acting users, umasks, arbitrary modes and owners (C03)
}

var flagSets = [][]string{
	{"RDONLY"}, {"WRONLY"}, {"RDWR"}, {"WRONLY", "CREATE"}, {"RDONLY", "CREATE"}, {"RDWR", "CREATE", "EXCL"},
	{"WRONLY", "CREATE", "TRUNC"}, {"RDONLY", "TRUNC"}, {"WRONLY", "APPEND", "CREATE"}, {"RDWR", "TRUNC"},
	{"RDWR", "APPEND"}, {"WRONLY", "CREATE", "EXCL"},
}

// gen holds the generator state for one plan: what exists according to the last projection.
type gen struct {
	r    *rand.Rand
	o    GenOpts
	post []Entry
	cwd  Path
	nh   int
	hs   []HandleView
}

func (g *gen) pick(xs []string) string { return xs[g.r.Intn(len(xs))] }

// randPath returns a path operand: mostly an existing path or a fresh child of an existing
// directory, sometimes an arbitrary universe path, rarely the work directory or the root.
func (g *gen) randPath() Path {
	x := g.r.Intn(100)

	var dirs, all [][]string

	for _, e := range g.post {
		all = append(all, e.P)

		if e.K == "dir" {
			dirs = append(dirs, e.P)
		}
	}

	switch {
	case x < 3:
		return Path{Abs: true, Parts: []string{}}
	case x < 8:
		return Path{Abs: true, Parts: []string{WorkDir}}
	case x < 45 && len(all) > 0:
		return Path{Abs: true, Parts: append([]string{}, all[g.r.Intn(len(all))]...)}
	case x < 80 && len(dirs) > 0:
		d := dirs[g.r.Intn(len(dirs))]
		if len(d) < g.o.Depth+1 {
			return Path{Abs: true, Parts: append(append([]string{}, d...), g.pick(g.o.Names))}
		}

		return Path{Abs: true, Parts: append([]string{}, d...)}
	case x < 90 && len(all) > 0:
		// below an arbitrary entry (through files and links)
		d := all[g.r.Intn(len(all))]

		return Path{Abs: true, Parts: append(append([]string{}, d...), g.pick(g.o.Names))}
	}

	n := 1 + g.r.Intn(g.o.Depth)
	parts := []string{WorkDir}

	for i := 0; i < n; i++ {
		parts = append(parts, g.pick(g.o.Names))
	}

	return Path{Abs: true, Parts: parts}
}

func (g *gen) randTarget() Path {
	switch g.r.Intn(6) {
	case 0:
		return Path{Parts: []string{g.pick(g.o.Names)}}
	case 1:
		return Path{Parts: []string{"..", g.pick(g.o.Names)}}
	case 2:
		return Path{Parts: []string{g.pick(g.o.Names), g.pick(g.o.Names)}}
	case 3:
		return Path{Parts: []string{"."}}
	default:
		return g.randPath()
	}
}

func (g *gen) randData() []int {
	if g.r.Intn(8) == 0 {
		return []int{} // an empty buffer / string still meets the handle's state and access mode
	}

	n := 1 + g.r.Intn(4)
	d := make([]int, n)
	v := 1 + g.r.Intn(3)

	for i := range d {
		d[i] = v
	}

	return d
}

// Respell returns an unclean spelling of a clean path with the same Clean() form:
// "a/./b", "a//b", "a/zz/../b" or a trailing separator.
func Respell(r *rand.Rand, p Path) Path {
	if len(p.Parts) == 0 {
		return p
	}

	q := Path{Abs: p.Abs}
	i := r.Intn(len(p.Parts))
	how := r.Intn(4)

	for j, c := range p.Parts {
		if j == i && (j > 0 || p.Abs) {
			switch how {
			case 0:
				q.Parts = append(q.Parts, ".")
			case 1:
				q.Parts = append(q.Parts, "")
			case 2:
				q.Parts = append(q.Parts, "zz", "..")
			}
		}

		q.Parts = append(q.Parts, c)
	}

	if how == 3 {
		q.Parts = append(q.Parts, "")
	}

	return q
}

func (g *gen) next() Call {
	c := Call{}

	ops := []string{
		"mkdir", "mkdir", "mkdirall", "openclose", "openclose", "create", "writefile", "writefile", "writefile",
		"remove", "remove", "removeall", "rename", "rename", "rename", "link", "link", "truncate", "chmod",
		"chtimes", "createtemp", "mkdirtemp", "stat", "lstat", "readdir", "readfile",
	}

	if g.o.Sym {
		ops = append(ops, "symlink", "symlink", "symlink", "readlink", "evalsymlinks", "lchown")
	}

	if g.o.Own {
		ops = append(ops, "chown")
	}

	if g.o.Relative {
		ops = append(ops, "chdir")
	}

	if g.o.Perm {
		ops = append(ops, "setuser", "setuser", "setumask", "chmod", "chmod", "chmod", "chown", "chown", "lchown")
	}

	if g.o.Handles {
		ops = append(ops, "open", "open", "read", "write", "write", "seek", "close", "readat", "writeat", "ftruncate", "fstat",
			"freaddir", "freaddirnames", "fsync", "fchmod", "writestring")
	}

	c.Op = g.pick(ops)
	c.P = g.randPath()

	switch c.Op {
	case "mkdir", "mkdirall":
		c.Perm = []int{0o755, 0o700, 0o777}[g.r.Intn(3)]
	case "openclose", "open":
		c.Flag = flagSets[g.r.Intn(len(flagSets))]
		c.Perm = []int{0o644, 0o600, 0o666}[g.r.Intn(3)]
	case "writefile":
		c.Data = g.randData()
		c.Perm = 0o644
	case "rename", "link":
		c.Q = g.randPath()
	case "symlink":
		c.Q = g.randTarget()
	case "truncate":
		c.N = []int{0, 1, 3, 6, -1}[g.r.Intn(5)]
	case "chmod", "fchmod":
		c.Perm = []int{0o700, 0o444, 0o755, 0o644, 0o1777, 0o600}[g.r.Intn(6)]

		if g.o.Perm {
			// any permission triple per class, sometimes with sticky / set-gid / set-uid
			c.Perm = g.r.Intn(512)
			if g.r.Intn(4) == 0 {
				c.Perm |= []int{0o1000, 0o2000, 0o4000, 0o3000}[g.r.Intn(4)]
			}
		}
	case "chown", "lchown":
		c.Uid = []int{1001, -1, 0}[g.r.Intn(3)]
		c.Gid = []int{1001, 1002, -1}[g.r.Intn(3)]

		if g.o.Perm {
			c.Uid = []int{1001, 1002, -1, 0}[g.r.Intn(4)]
			c.Gid = []int{1001, 1002, -1, 0}[g.r.Intn(4)]
		}
	case "setuser":
		c.P = Path{Parts: []string{}}
		c.Uid = []int{1001, 1001, 1002, 0}[g.r.Intn(4)]
		c.Gid = c.Uid
	case "setumask":
		c.P = Path{Parts: []string{}}
		c.Perm = []int{0o022, 0o077, 0, 0o027, 0o777}[g.r.Intn(5)]
	case "chtimes":
		c.N = g.r.Intn(100)
	case "createtemp", "mkdirtemp":
		if len(c.P.Parts) == 0 {
			c.P = Path{Abs: true, Parts: []string{WorkDir}}
		}
	}

	if g.nh > 0 {
		c.H = 1 + g.r.Intn(g.nh)
	} else {
		c.H = 1
	}

	switch c.Op {
	case "read":
		c.N = g.r.Intn(5)
	case "readat":
		c.N = g.r.Intn(5)
		c.Off = g.r.Intn(9) - 1
	case "write", "writestring":
		c.Data = g.randData()
	case "writeat":
		c.Data = g.randData()
		c.Off = g.r.Intn(9) - 1
	case "seek":
		c.Wh = []int{0, 1, 2, 0, 1, 2, 7}[g.r.Intn(7)]
		c.Off = g.r.Intn(10) - 3

		if c.H >= 1 && c.H <= len(g.hs) && g.hs[c.H-1].K == "dir" {
			// directory offsets are opaque cookies on Linux: only the rewind is part of the universe
			c.Wh, c.Off = 0, 0
		}
	case "ftruncate":
		c.N = g.r.Intn(8) - 1
	case "freaddir", "freaddirnames":
		c.N = []int{-1, 0, 1, 1, 2, 1000000}[g.r.Intn(6)] // 1000000 stands for math.MaxInt
	}

	normCall(&c)

	return c
}

// admissible filters calls that are outside the universe of the properties (see DESIGN.md):
// removing or moving the working directory or one of its ancestors.
func (g *gen) admissible(c Call) bool {
	switch c.Op {
	case "remove", "removeall", "rename":
		cw := "/" + strings.Join(g.cwd.Parts, "/")
		pp := "/" + strings.Join(cleanParts(c.P.Parts), "/")

		if len(g.cwd.Parts) > 0 && (cw == pp || strings.HasPrefix(cw, pp+"/") || pp == "/") {
			return false
		}
	}

	return true
}

func cleanParts(parts []string) []string {
	var out []string

	for _, c := range parts {
		switch c {
		case "", ".":
		case "..":
			if len(out) > 0 {
				out = out[:len(out)-1]
			}
		default:
			out = append(out, c)
		}
	}

	return out
}

// GenerateOn generates nplans random plans while executing them on the (reference) target, so that
// the generator knows what exists; every executed step is recorded as a trace event.
func GenerateOn(f *Factory, seed int64, nplans int, o GenOpts, plans, trace io.Writer) error {
	pw := bufio.NewWriter(plans)
	defer pw.Flush()

	tw := bufio.NewWriter(trace)
	defer tw.Flush()

	penc, tenc := json.NewEncoder(pw), json.NewEncoder(tw)

	for k := 0; k < nplans; k++ {
		s, err := f.New()
		if err != nil {
			return err
		}

		g := &gen{r: rand.New(rand.NewSource(seed*1000003 + int64(k))), o: o}
		g.post = s.Project(o.Names).Post
		pl := Plan{Name: fmt.Sprintf("r%d-%d", seed, k)}

		for i := 0; i < o.Len; i++ {
			c := g.next()
			for tries := 0; !(g.admissible(c) && Applicable(f.Target, c)) && tries < 20; tries++ {
				c = g.next()
			}

			if !(g.admissible(c) && Applicable(f.Target, c)) {
				continue
			}

			pl.Calls = append(pl.Calls, c)
			ev := s.Step(pl.Name, len(pl.Calls), c, o.Names)

			if err := tenc.Encode(ev); err != nil {
				return err
			}

			g.post, g.cwd, g.nh, g.hs = ev.Post, ev.Cwd, len(s.Hs), ev.Hs

			if s.Dead {
				break
			}
		}

		s.CloseAll()

		if err := penc.Encode(pl); err != nil {
			return err
		}
	}

	return nil
}

// RunPlans executes plans on a target and records the traces.
func RunPlans(f *Factory, plans io.Reader, trace io.Writer, names []string, shard, nshard int, unclean int64) (int, error) {
	var ur *rand.Rand
	if unclean != 0 {
		ur = rand.New(rand.NewSource(unclean))
	}

	sc := bufio.NewScanner(plans)
	sc.Buffer(make([]byte, 1<<20), 1<<28)

	tw := bufio.NewWriter(trace)
	defer tw.Flush()

	tenc := json.NewEncoder(tw)
	n, idx := 0, -1

	for sc.Scan() {
		idx++
		if idx%nshard != shard {
			continue
		}

		var pl Plan
		if err := json.Unmarshal(sc.Bytes(), &pl); err != nil {
			return n, err
		}

		s, err := f.New()
		if err != nil {
			return n, err
		}

		i := 0

		for _, c := range pl.Calls {
			if !Applicable(f.Target, c) {
				continue
			}

			if c.Op == "wrap" && len(c.Flag) > 0 {
				i++
				// the recorded pseudo call carries the wrapper's parameters in its operands (see WrapWith)
				kind := c.Flag[0]

				switch {
				case kind == "sub":
					kind = "sub:" + c.P.Render()
					if len(c.P.Parts) == 0 {
						kind = "sub:/"
					}

					if c.N == 2 {
						q := c.Q.Render()
						if len(c.Q.Parts) == 0 {
							q = "/"
						}

						kind += "+" + q
					}
				case kind == "failfs" && len(c.Flag) > 1:
					kind = fmt.Sprintf("failfs:%s:%d", c.Flag[1], c.N)
				}

				if err := tenc.Encode(s.WrapWith(pl.Name, i, kind, names)); err != nil {
					return n, err
				}

				n++

				continue
			}

			if ur != nil && ur.Intn(3) == 0 {
				// the same call in an unclean spelling: the properties define it to behave as its Clean() form
				c.P = Respell(ur, c.P)
				if c.Op == "rename" || c.Op == "link" {
					c.Q = Respell(ur, c.Q)
				}
			}

			if _ = s.render(c.P); s.Diverged {
				break
			}

			if _ = s.render(c.Q); s.Diverged {
				break
			}

			i++
			ev := s.Step(pl.Name, i, c, names)

			if err := tenc.Encode(ev); err != nil {
				return n, err
			}

			n++

			if s.Dead {
				break
			}
		}

		s.CloseAll()
	}

	return n, sc.Err()
}
