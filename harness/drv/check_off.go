//go:build !verif

package drv

import (
	"github.com/avfs/avfs/vfs/memfs"
	"github.com/avfs/avfs/vfs/orefafs"
)

func memfsCheck(*memfs.MemFS) func() string       { return nil }
func orefafsCheck(*orefafs.OrefaFS) func() string { return nil }

// InstallSelfDeadlockHook needs the verif build tag.
func InstallSelfDeadlockHook() {}

// HooksEnabled reports whether the driver was built with the verification hooks.
const HooksEnabled = false
