//go:build verif

package drv

import (
	"sync"

	"github.com/avfs/avfs"
	"github.com/avfs/avfs/vfs/memfs"
	"github.com/avfs/avfs/vfs/orefafs"
)

func memfsCheck(v *memfs.MemFS) func() string       { return v.VerifCheck }
func orefafsCheck(v *orefafs.OrefaFS) func() string { return v.VerifCheck }

// InstallSelfDeadlockHook makes every mutex acquisition of the code under test fail fast when the
// mutex is not available. With a single goroutine running, "not available" is exactly a self-deadlock
// (the goroutine already holds the lock), so the verdict needs no timeout.
func InstallSelfDeadlockHook() {
	avfs.VerifLockHook = func(mu any, write bool) {
		m, ok := mu.(*sync.RWMutex)
		if !ok {
			return
		}

		if write {
			if !m.TryLock() {
				panic(errDeadlock)
			}

			m.Unlock()

			return
		}

		if !m.TryRLock() {
			panic(errDeadlock)
		}

		m.RUnlock()
	}
}

// HooksEnabled reports whether the driver was built with the verification hooks.
const HooksEnabled = true
