// Package drv is the conformance driver binding the TLA+ specification of avfs
// to the real code: it executes abstract calls (the records TLC emits and
// validates) against real file systems and projects their state.
package drv

import (
	"encoding/json"
	"strings"
)

// Path is the abstract path: a component list plus an absolute flag.
// Components may be ".", ".." and "" (an empty component renders a doubled separator).
type Path struct {
	Abs   bool     `json:"abs"`
	Parts []string `json:"parts"`
}

// Render renders the path for a '/'-separated file system.
func (p Path) Render() string {
	s := strings.Join(p.Parts, "/")
	if p.Abs {
		return "/" + s
	}

	return s
}

// RenderWin renders the path for a Windows-typed file system (volume C:, backslash separators).
func (p Path) RenderWin() string {
	s := strings.Join(p.Parts, "\\")
	if p.Abs {
		return WinVolume + "\\" + s
	}

	return s
}

// WinVolume is the volume the Windows-typed paths are rendered in (a driver process serves one target).
var WinVolume = "C:"

// ParsePathWin converts a concrete Windows-style path into the abstract form.
func ParsePathWin(s string) Path {
	p := Path{Parts: []string{}}
	if len(s) >= 2 && s[1] == ':' {
		s = s[2:]
	}

	if strings.HasPrefix(s, "\\") {
		p.Abs = true
		s = s[1:]
	}

	if s == "" {
		return p
	}

	p.Parts = strings.Split(s, "\\")

	return p
}

// ParsePath converts a concrete clean-ish path string into the abstract form.
func ParsePath(s string) Path {
	p := Path{Parts: []string{}}
	if strings.HasPrefix(s, "/") {
		p.Abs = true
		s = s[1:]
	}

	if s == "" {
		return p
	}

	p.Parts = strings.Split(s, "/")

	return p
}

// Call is one abstract API call. Every field is always present so that TLC can
// treat all calls as records over one field set.
type Call struct {
	Op   string   `json:"op"`
	V    int      `json:"v"`    // view / handle owner (0 = main view)
	P    Path     `json:"p"`    // first path operand
	Q    Path     `json:"q"`    // second path operand (rename, link: new name; symlink: link name is P, target is Q)
	Flag []string `json:"flag"` // open flags
	Perm int      `json:"perm"` // permission / mode operand
	Data []int    `json:"data"` // bytes to write
	N    int      `json:"n"`    // size / count operand
	Off  int      `json:"off"`  // offset operand
	Wh   int      `json:"wh"`   // whence
	H    int      `json:"h"`    // handle index (1-based)
	Uid  int      `json:"uid"`
	Gid  int      `json:"gid"`
}

// Info is the abstract stat result.
type Info struct {
	K  string `json:"k"` // "dir" | "file" | "link" | "none"
	M  int    `json:"m"`
	U  int    `json:"u"`
	G  int    `json:"g"`
	Sz int    `json:"sz"`
	Nl int    `json:"nl"`
}

// Res is the abstract result of a call; all fields always present.
type Res struct {
	Err   string   `json:"err"`
	N     int      `json:"n"`
	Data  []int    `json:"data"`
	Names []string `json:"names"`
	Path  Path     `json:"path"`
	Info  Info     `json:"info"`
}

// Entry is one line of the projected tree.
type Entry struct {
	P    []string   `json:"p"`
	K    string     `json:"k"`
	M    int        `json:"m"`
	U    int        `json:"u"`
	G    int        `json:"g"`
	D    []int      `json:"d"`
	Nl   int        `json:"nl"`
	T    Path       `json:"t"`
	Same [][]string `json:"same"` // all paths that are SameFile with this one (regular files), sorted
}

// HandleView is what is observable about an open handle after every step.
type HandleView struct {
	Open bool   `json:"open"`
	K    string `json:"k"`
	Sz   int    `json:"sz"`
	Nl   int    `json:"nl"`
	M    int    `json:"m"`
	Off  int    `json:"off"` // offset of an open regular file (Seek(0, io.SeekCurrent)), -1 otherwise
}

// View is the per-view observable state.
type View struct {
	Cwd   Path `json:"cwd"`
	Uid   int  `json:"uid"`
	Gid   int  `json:"gid"`
	Umask int  `json:"umask"`
}

// Event is one line of a recorded implementation trace.
type Event struct {
	Tr    string       `json:"tr"`
	I     int          `json:"i"`
	Fs    string       `json:"fs"`
	Reset bool         `json:"reset"`
	Call  Call         `json:"call"`
	Res   Res          `json:"res"`
	Post  []Entry      `json:"post"`
	Hs    []HandleView `json:"hs"`
	Cwd   Path         `json:"cwd"`
	Inv   string       `json:"inv"`
	Srt   bool         `json:"srt"`  // all listings sorted and duplicate free
	Mt    string       `json:"mt"`   // digest of every modification time of the base (wrapper runs only)
	Cons  []string     `json:"cons"` // primitives consulted through a FailFS wrapper during the call, in order
	Um    int          `json:"um"`   // umask of the (base / parent) file system itself, -1 when not observable
	Leak  bool         `json:"leak"` // a path returned or embedded in an error reveals the base path (BasePathFS)
	Uid   int          `json:"uid"`  // current user of the base file system under a RoFS / FailFS wrapper, -1 when not observed
}

// Edge is one transition of the bounded state graph emitted by TLC.
// Alt is an outcome an open deviation admits instead of the strict one.
type Alt struct {
	Impl string       `json:"impl"`
	Kf   string       `json:"kf"`
	Res  Res          `json:"res"`
	Post []Entry      `json:"post"`
	Cwd  Path         `json:"cwd"`
	Hs   []HandleView `json:"hs"`
}

type Edge struct {
	Um   *int         `json:"um"`
	Uid  *int         `json:"uid"`
	T    string       `json:"t"`   // "" = transition, "alt" = an alternative outcome of the transition with the same key
	Alt  *Alt         `json:"alt"` // the alternative (t == "alt")
	Alts []Alt        `json:"alts"`
	Hs   []HandleView `json:"hs"`
	Cons []string     `json:"cons"` // primitives the specification expects the call to consult (FailFS)
	Wrap string       `json:"wrap"` // wrapper the call goes through ("" = none)
	Wh   []Call       `json:"wh"`   // calls already made through the wrapper
	Hist []Call       `json:"hist"`
	Call Call         `json:"call"`
	Res  Res          `json:"res"`
	Pre  []Entry      `json:"pre"`
	Post []Entry      `json:"post"`
	Cwd  Path         `json:"cwd"`
}

// DecodeTLC decodes a line written by TLC's CSVWrite("%1$s", <<ToJson(rec)>>):
// the JSON document, possibly wrapped as a JSON string literal.
func DecodeTLC(line []byte, v any) error {
	if len(line) > 0 && line[0] == '"' {
		var s string
		if err := json.Unmarshal(line, &s); err != nil {
			return err
		}

		line = []byte(s)
	}

	return json.Unmarshal(line, v)
}

func normCall(c *Call) {
	if c.P.Parts == nil {
		c.P.Parts = []string{}
	}

	if c.Q.Parts == nil {
		c.Q.Parts = []string{}
	}

	if c.Flag == nil {
		c.Flag = []string{}
	}

	if c.Data == nil {
		c.Data = []int{}
	}
}

// NewRes returns a result with all fields initialised to their neutral value.
func NewRes(err string) Res {
	return Res{
		Err: err, Data: []int{}, Names: []string{}, Path: Path{Parts: []string{}},
		Info: Info{K: "none"},
	}
}
