package drv

import (
	"syscall"
	"unsafe"
)

func setgroupsRaw(g []uint32) {
	var p unsafe.Pointer
	if len(g) > 0 {
		p = unsafe.Pointer(&g[0])
	}

	_, _, _ = syscall.RawSyscall(syscall.SYS_SETGROUPS, uintptr(len(g)), uintptr(p), 0)
}
