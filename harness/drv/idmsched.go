//go:build verif

package drv

import (
	"encoding/json"
	"fmt"
	"io"

	"github.com/avfs/avfs/idm/memidm"
)

// IdmScheduled explores, under the deterministic scheduler (goroutines parked at every mutex acquisition of
// MemIdm), every schedule with at most bound preemptions of every pair of identity-manager calls from every
// set-up state, and writes the distinct histories (judged by IdmLin.tla like the free-running ones).
func IdmScheduled(gnames, unames []string, maxID, bound, maxRuns int, out io.Writer) (int, int, error) {
	var templ []IdmCall

	for _, n := range gnames {
		templ = append(templ, IdmCall{Op: "addgroup", Name: n}, IdmCall{Op: "delgroup", Name: n}, IdmCall{Op: "lookupgroup", Name: n})
	}

	for _, n := range unames {
		templ = append(templ, IdmCall{Op: "deluser", Name: n}, IdmCall{Op: "lookupuser", Name: n})

		for _, g := range gnames {
			templ = append(templ, IdmCall{Op: "adduser", Name: n, Group: g})
		}
	}

	inits := [][]IdmCall{
		{},
		{{Op: "addgroup", Name: gnames[0]}},
		{{Op: "addgroup", Name: gnames[0]}, {Op: "adduser", Name: unames[0], Group: gnames[0]}},
	}

	seen := map[string]*IdmHistory{}

	var order []string

	runs := 0

	for _, init := range inits {
		for a := range templ {
			for b := a; b < len(templ); b++ {
				calls := []IdmCall{templ[a], templ[b]}

				type item struct{ prefix []int }

				buckets := make([][]item, bound+1)
				buckets[0] = []item{{}}
				visited := map[string]bool{}
				n := 0

				for n < maxRuns {
					var (
						it item
						ok bool
					)

					for k := range buckets {
						if l := len(buckets[k]); l > 0 {
							it, ok = buckets[k][l-1], true
							buckets[k] = buckets[k][:l-1]

							break
						}
					}

					if !ok {
						break
					}

					key := fmt.Sprint(it.prefix)
					if visited[key] {
						continue
					}

					visited[key] = true
					n++
					runs++

					idm := memidm.New()
					for _, c := range init {
						IdmExec(idm, c)
					}

					res := make([]IdmRes, len(calls))
					bodies := make([]func(), len(calls))

					for i := range calls {
						i := i
						bodies[i] = func() { res[i] = IdmExec(idm, calls[i]) }
					}

					sr := RunScheduled(bodies, func(k int, enabled []int, prev int) int {
						if k < len(it.prefix) {
							for _, g := range enabled {
								if g == it.prefix[k] {
									return g
								}
							}
						}

						for _, g := range enabled {
							if g == prev {
								return g
							}
						}

						return enabled[0]
					})

					if sr.Deadlock {
						for i := range res {
							if res[i].Err == "" {
								res[i] = IdmRes{Err: "DEADLOCK", Uid: -1, Gid: -1}
							}
						}
					}

					h := &IdmHistory{Init: init, Calls: calls, Res: res, Count: 1,
						Tab: IdmProject(idm, append([]string{"root"}, gnames...), append([]string{"root"}, unames...), maxID)}
					if h.Init == nil {
						h.Init = []IdmCall{}
					}

					hk := fmt.Sprint(init, calls, res, h.Tab.canon())
					if old, ok := seen[hk]; ok {
						old.Count++
					} else {
						h.Id = 500000 + len(seen) + 1
						seen[hk] = h
						order = append(order, hk)
					}

					for k := len(it.prefix); k < len(sr.Steps); k++ {
						if len(sr.Choices[k]) < 2 {
							continue
						}

						for _, g := range sr.Choices[k] {
							if g == sr.Steps[k] {
								continue
							}

							np := append(append([]int{}, sr.Steps[:k]...), g)
							if pc := preemptions(np, sr.Choices); pc <= bound {
								buckets[pc] = append(buckets[pc], item{prefix: np})
							}
						}
					}
				}
			}
		}
	}

	enc := json.NewEncoder(out)
	for _, k := range order {
		if err := enc.Encode(seen[k]); err != nil {
			return 0, runs, err
		}
	}

	return len(order), runs, nil
}
