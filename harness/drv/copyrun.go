package drv

import (
	"bufio"
	"bytes"
	"crypto/sha256"
	"encoding/json"
	"errors"
	"fmt"
	"io"
	"io/fs"
	"os"

	"github.com/avfs/avfs"
	"github.com/avfs/avfs/vfs/failfs"
	"github.com/avfs/avfs/vfs/memfs"
	"github.com/avfs/avfs/vfs/orefafs"
	"github.com/avfs/avfs/vfs/osfs"
)

// CopyPlan is one case emitted by CopySpec.
type CopyPlan struct {
	Variant string `json:"variant"`
	Chunks  int    `json:"chunks"`
	Rem     bool   `json:"rem"`
	Plan    struct {
		Side string `json:"side"`
		Fn   string `json:"fn"`
		K    int    `json:"k"`
	} `json:"plan"`
	ExpectErr bool `json:"expecterr"`
}

// CopyConsult is one primitive consulted through a FailFS wrapper.
type CopyConsult struct {
	Side   string `json:"side"`
	Fn     string `json:"fn"`
	Failed bool   `json:"failed"`
}

// CopyRun is the record of one real execution.
type CopyRun struct {
	Id       int           `json:"id"`
	Pair     string        `json:"pair"`
	Variant  string        `json:"variant"`
	Chunks   int           `json:"chunks"`
	Rem      bool          `json:"rem"`
	Plan     any           `json:"plan"`
	Consults []CopyConsult `json:"consults"`
	ErrNil   bool          `json:"errnil"`
	DstOk    bool          `json:"dstok"`
	PermOk   bool          `json:"permok"`
	SumOk    bool          `json:"sumok"`
	SrcMode  int           `json:"srcmode"`
	DstPre   bool          `json:"dstpre"`
	Err      string        `json:"err"`
}

var errInjected = errors.New("verif: injected failure")

var fnNames = map[avfs.FnVFS]string{
	avfs.FnOpenFile: "OpenFile", avfs.FnFileRead: "FileRead", avfs.FnFileWrite: "FileWrite", avfs.FnFileSync: "FileSync",
	avfs.FnStat: "Stat", avfs.FnChmod: "Chmod", avfs.FnFileClose: "FileClose",
}

func fnName(fn avfs.FnVFS) string {
	if n, ok := fnNames[fn]; ok {
		return n
	}

	return fn.String()
}

const copyBuf = 32 * 1024

func newBase(kind, dir string) (avfs.VFS, string, error) {
	switch kind {
	case "memfs":
		return memfs.New(), "/tmp", nil
	case "orefafs":
		return orefafs.New(), "/tmp", nil
	case "osfs":
		d, err := os.MkdirTemp(dir, "copy-")

		return osfs.NewWithNoIdm(), d, err
	}

	return nil, "", fmt.Errorf("unknown base %q", kind)
}

// RunCopyPlans executes every plan on every pair of source and destination file systems.
func RunCopyPlans(in io.Reader, out io.Writer, pairs [][2]string, scratch string) (int, error) {
	sc := bufio.NewScanner(in)
	sc.Buffer(make([]byte, 1<<20), 1<<26)

	w := bufio.NewWriter(out)
	defer w.Flush()

	enc := json.NewEncoder(w)
	id := 0

	for sc.Scan() {
		var p CopyPlan
		if err := DecodeTLC(sc.Bytes(), &p); err != nil {
			return id, err
		}

		for _, pair := range pairs {
			id++

			r, err := runCopy(id, p, pair, scratch)
			if err != nil {
				return id, err
			}

			if err := enc.Encode(r); err != nil {
				return id, err
			}
		}
	}

	return id, sc.Err()
}

func runCopy(id int, p CopyPlan, pair [2]string, scratch string) (r CopyRun, err error) {
	r = CopyRun{Id: id, Pair: pair[0] + "->" + pair[1], Variant: p.Variant, Chunks: p.Chunks, Rem: p.Rem, Plan: p.Plan, Consults: []CopyConsult{}}

	srcBase, srcDir, err := newBase(pair[0], scratch)
	if err != nil {
		return r, err
	}

	dstBase, dstDir, err := newBase(pair[1], scratch)
	if err != nil {
		return r, err
	}

	defer func() {
		if pair[0] == "osfs" {
			_ = os.RemoveAll(srcDir)
		}

		if pair[1] == "osfs" {
			_ = os.RemoveAll(dstDir)
		}
	}()

	size := p.Chunks * copyBuf
	if p.Rem {
		if id%2 == 0 {
			size++
		} else {
			size += copyBuf - 1
		}
	}

	data := make([]byte, size)
	for i := range data {
		data[i] = byte(i*7 + id)
	}

	srcPath, dstPath := srcDir+"/src.bin", dstDir+"/dst.bin"
	if err := srcBase.WriteFile(srcPath, data, 0o600); err != nil {
		return r, err
	}

	// the source mode and the state of the destination vary with the run: three source modes (one of them the
	// default mode of a new file), and every other run the destination already exists - longer, with another
	// mode - so that "the copy leaves the source's permission bits" is not satisfied by accident
	srcMode := []fs.FileMode{0o640, 0o644, 0o600}[id%3]
	if err := srcBase.Chmod(srcPath, srcMode); err != nil {
		return r, err
	}

	r.SrcMode, r.DstPre = int(srcMode), (id/3)%2 == 1
	if r.DstPre {
		if err := dstBase.WriteFile(dstPath, append(append([]byte{}, data...), 1, 2, 3), 0o600); err != nil {
			return r, err
		}

		if err := dstBase.Chmod(dstPath, 0o600); err != nil {
			return r, err
		}
	}

	counts := map[string]int{}
	mk := func(side string, base avfs.VFS) *failfs.FailFS {
		f := failfs.New(base)
		_ = f.SetFailFunc(func(_ avfs.VFSBase, fn avfs.FnVFS, _ *failfs.FailParam) error {
			name := fnName(fn)
			counts[side+name]++
			fail := p.Plan.Side == side && p.Plan.Fn == name && counts[side+name] == p.Plan.K
			r.Consults = append(r.Consults, CopyConsult{Side: side, Fn: name, Failed: fail})

			if fail {
				return errInjected
			}

			return nil
		})

		return f
	}

	src, dst := mk("src", srcBase), mk("dst", dstBase)
	want := sha256.Sum256(data)

	var (
		sum  []byte
		cerr error
	)

	func() {
		defer func() {
			if rec := recover(); rec != nil {
				cerr = fmt.Errorf("PANIC: %v", rec)
			}
		}()

		switch p.Variant {
		case "copy":
			cerr = avfs.CopyFile(dst, src, dstPath, srcPath)
		case "copyhash":
			sum, cerr = avfs.CopyFileHash(dst, src, dstPath, srcPath, sha256.New())
		case "hashfile":
			sum, cerr = avfs.HashFile(src, srcPath, sha256.New())
		}
	}()

	r.ErrNil = cerr == nil
	if cerr != nil {
		r.Err = cerr.Error()
	}

	r.DstOk, r.PermOk, r.SumOk = true, true, true

	if p.Variant != "copy" {
		r.SumOk = bytes.Equal(sum, want[:])
	}

	if p.Variant != "hashfile" {
		got, err := dstBase.ReadFile(dstPath)
		r.DstOk = err == nil && bytes.Equal(got, data)

		fi, err := dstBase.Stat(dstPath)
		r.PermOk = err == nil && fi.Mode().Perm() == srcMode
	}

	return r, nil
}
