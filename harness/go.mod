module verif/harness

go 1.22

require github.com/avfs/avfs v0.0.0

replace github.com/avfs/avfs => /repo
