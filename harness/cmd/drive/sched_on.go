//go:build verif

package main

import (
	"encoding/json"
	"flag"
	"fmt"
	"os"
	"strings"

	"verif/harness/drv"
)

func runSched(cmd string, args []string) error {
	if cmd == "stress" {
		return runStress(args)
	}

	if cmd == "schedreplay" {
		return runSchedReplay(args)
	}

	if cmd == "idmsched" {
		fl := flag.NewFlagSet("idmsched", flag.ExitOnError)
		out := fl.String("out", "", "history file")
		gn := fl.String("gnames", "g1,g2", "group names")
		un := fl.String("unames", "u1,u2", "user names")
		bound := fl.Int("bound", 2, "preemption bound")
		maxRuns := fl.Int("maxruns", 200, "executions per program at most")
		_ = fl.Parse(args)

		of, err := os.Create(*out)
		if err != nil {
			return err
		}
		defer of.Close()

		n, runs, err := drv.IdmScheduled(strings.Split(*gn, ","), strings.Split(*un, ","), 1006, *bound, *maxRuns, of)
		if err != nil {
			return err
		}

		fmt.Printf("{\"histories\":%d,\"runs\":%d}\n", n, runs)

		return nil
	}

	if cmd != "sched" {
		return fmt.Errorf("unknown command %q", cmd)
	}

	fl := flag.NewFlagSet("sched", flag.ExitOnError)
	target := fl.String("target", "memfs", "memfs | orefafs")
	out := fl.String("out", "", "histories (ndjson)")
	bound := fl.Int("bound", 2, "preemption bound")
	maxRuns := fl.Int("maxruns", 400, "executions per program at most")
	seed := fl.Int64("seed", 1, "seed")
	triples := fl.Int("triples", 20, "sampled three-goroutine programs")
	pairs2 := fl.Int("pairs2", 20, "sampled programs of two goroutines with two calls each")
	shard := fl.Int("shard", 0, "shard")
	nshard := fl.Int("nshard", 1, "shards")
	names := fl.String("names", "a,b,d,e,c,l", "names probed")
	_ = fl.Parse(args)

	of, err := os.Create(*out)
	if err != nil {
		return err
	}
	defer of.Close()

	f, err := drv.NewFactory(*target)
	if err != nil {
		return err
	}

	progs := drv.SchedPrograms(*target == "memfs", *seed, *triples, *pairs2)

	st, err := drv.ExploreAll(f, progs, strings.Split(*names, ","), *bound, *maxRuns, *seed, *shard, *nshard, of)
	if err != nil {
		return err
	}

	b, _ := json.Marshal(st)
	fmt.Println(string(b))

	return nil
}

func runStress(args []string) error {
	fl := flag.NewFlagSet("stress", flag.ExitOnError)
	target := fl.String("target", "memfs", "memfs | orefafs")
	out := fl.String("out", "", "histories of the small programs (ndjson)")
	seed := fl.Int64("seed", 1, "seed")
	progs := fl.Int("progs", 100, "programs")
	maxG := fl.Int("maxg", 16, "goroutines per large program at most")
	length := fl.Int("len", 30, "calls per goroutine in large programs")
	names := fl.String("names", "a,b,d,e,c,l", "names probed")
	_ = fl.Parse(args)

	of, err := os.Create(*out)
	if err != nil {
		return err
	}
	defer of.Close()

	f, err := drv.NewFactory(*target)
	if err != nil {
		return err
	}

	st, err := drv.Stress(f, *seed, *progs, *maxG, *length, strings.Split(*names, ","), of)
	if err != nil {
		return err
	}

	b, _ := json.Marshal(st)
	fmt.Println(string(b))

	return nil
}

// runSchedReplay re-executes one recorded history: the program under the recorded schedule (or free running,
// repeatedly, when the history was recorded without a schedule) and writes the histories observed.
func runSchedReplay(args []string) error {
	fl := flag.NewFlagSet("schedreplay", flag.ExitOnError)
	in := fl.String("history", "", "recorded history (json)")
	out := fl.String("out", "", "histories observed (ndjson)")
	runs := fl.Int("runs", 200, "free-running executions when there is no schedule")
	names := fl.String("names", "a,b,d,e,c,l", "names probed")
	_ = fl.Parse(args)

	b, err := os.ReadFile(*in)
	if err != nil {
		return err
	}

	var h drv.History
	if err := json.Unmarshal(b, &h); err != nil {
		return err
	}

	of, err := os.Create(*out)
	if err != nil {
		return err
	}
	defer of.Close()

	f, err := drv.NewFactory(h.Fs)
	if err != nil {
		return err
	}

	hs, err := drv.ReplayHistory(f, &h, strings.Split(*names, ","), *runs)
	if err != nil {
		return err
	}

	return drv.WriteHistories(of, hs, 1)
}
