//go:build !verif

package main

import "fmt"

func runSched(cmd string, _ []string) error {
	return fmt.Errorf("command %q needs the verif build tag", cmd)
}
