// Command drive is the conformance driver: it replays TLC-generated behaviours against the
// real avfs code and records implementation traces for TLC to validate.
package main

import (
	"encoding/json"
	"flag"
	"fmt"
	"os"
	"strings"

	"verif/harness/drv"
)

func main() {
	if len(os.Args) < 2 {
		fmt.Fprintln(os.Stderr, "usage: drive <replay|...> [flags]")
		os.Exit(2)
	}

	var err error

	switch os.Args[1] {
	case "replay":
		err = cmdReplay(os.Args[2:])
	default:
		err = runExtra(os.Args[1], os.Args[2:])
	}

	if err != nil {
		fmt.Fprintln(os.Stderr, "drive:", err)
		os.Exit(2)
	}
}

func cmdReplay(args []string) error {
	fl := flag.NewFlagSet("replay", flag.ExitOnError)
	target := fl.String("target", "memfs", "memfs | orefafs | osfs")
	edges := fl.String("edges", "", "edge file written by TLC")
	out := fl.String("out", "", "result file (non-conforming edges)")
	shard := fl.Int("shard", 0, "shard index")
	nshard := fl.Int("nshard", 1, "number of shards")
	names := fl.String("names", "a,b", "universe of names probed by the projection")
	workers := fl.Int("workers", 1, "goroutines replaying in parallel (in-memory targets only)")
	_ = fl.Parse(args)

	in, err := os.Open(*edges)
	if err != nil {
		return err
	}
	defer in.Close()

	of, err := os.Create(*out)
	if err != nil {
		return err
	}
	defer of.Close()

	// the factory may chroot the process: every file is open by now
	f, err := drv.NewFactory(*target)
	if err != nil {
		return err
	}

	drv.InstallSelfDeadlockHook()

	if *target == "osfs" {
		*workers = 1 // the kernel target changes process-wide state (chroot, cwd, umask)
	}

	st, err := drv.ReplayEdges(f, in, of, *shard, *nshard, strings.Split(*names, ","), *workers)
	if err != nil {
		return err
	}

	b, _ := json.Marshal(map[string]any{"target": *target, "shard": *shard, "stats": st, "jail": drv.JailDir()})
	fmt.Println(string(b))

	return nil
}
