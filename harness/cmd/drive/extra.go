package main

import "fmt"

func runExtra(cmd string, args []string) error {
	return fmt.Errorf("unknown command %q", cmd)
}
