package main

import (
	"encoding/json"
	"flag"
	"fmt"
	"os"
	"strings"

	"github.com/avfs/avfs"

	"verif/harness/drv"
)

func runExtra(cmd string, args []string) error {
	switch cmd {
	case "random":
		return cmdRandom(args)
	case "runplans":
		return cmdRunPlans(args)
	case "idmreplay":
		return cmdIdmReplay(args)
	case "idmconc":
		return cmdIdmConc(args)
	case "copyrun":
		return cmdCopyRun(args)
	case "volreplay":
		return cmdVolReplay(args)
	case "osinfo":
		return cmdOsInfo()
	case "lexreplay":
		return cmdLexReplay(args)
	case "adversarial":
		return cmdAdversarial(args)
	}

	return runSched(cmd, args)
}

func cmdRandom(args []string) error {
	fl := flag.NewFlagSet("random", flag.ExitOnError)
	target := fl.String("target", "osfs", "target the generator executes on")
	seed := fl.Int64("seed", 1, "seed")
	n := fl.Int("n", 10, "number of plans")
	ln := fl.Int("len", 100, "calls per plan")
	names := fl.String("names", "a,b,c", "universe of names")
	depth := fl.Int("depth", 3, "depth below the work directory")
	sym := fl.Bool("sym", false, "symbolic links")
	own := fl.Bool("own", false, "chown")
	perm := fl.Bool("perm", false, "acting users, umasks, arbitrary modes and owners")
	handles := fl.Bool("handles", false, "handle operations")
	unclean := fl.Bool("unclean", false, "unclean spellings")
	plans := fl.String("plans", "", "output: plans")
	trace := fl.String("trace", "", "output: trace of the generating run")
	_ = fl.Parse(args)

	pf, err := os.Create(*plans)
	if err != nil {
		return err
	}
	defer pf.Close()

	tf, err := os.Create(*trace)
	if err != nil {
		return err
	}
	defer tf.Close()

	f, err := drv.NewFactory(*target)
	if err != nil {
		return err
	}

	drv.InstallSelfDeadlockHook()

	o := drv.GenOpts{Names: strings.Split(*names, ","), Depth: *depth, Len: *ln, Sym: *sym, Own: *own, Handles: *handles, Unclean: *unclean, Perm: *perm}

	return drv.GenerateOn(f, *seed, *n, o, pf, tf)
}

func cmdRunPlans(args []string) error {
	fl := flag.NewFlagSet("runplans", flag.ExitOnError)
	target := fl.String("target", "memfs", "target")
	plans := fl.String("plans", "", "plans")
	trace := fl.String("trace", "", "output: trace")
	names := fl.String("names", "a,b,c", "universe of names")
	shard := fl.Int("shard", 0, "shard")
	nshard := fl.Int("nshard", 1, "shards")
	unclean := fl.Int64("unclean", 0, "seed for unclean respelling of path operands (0 = off)")
	_ = fl.Parse(args)

	pf, err := os.Open(*plans)
	if err != nil {
		return err
	}
	defer pf.Close()

	tf, err := os.Create(*trace)
	if err != nil {
		return err
	}
	defer tf.Close()

	f, err := drv.NewFactory(*target)
	if err != nil {
		return err
	}

	drv.InstallSelfDeadlockHook()

	n, err := drv.RunPlans(f, pf, tf, strings.Split(*names, ","), *shard, *nshard, *unclean)
	if err != nil {
		return err
	}

	b, _ := json.Marshal(map[string]any{"target": *target, "events": n})
	fmt.Println(string(b))

	return nil
}

func cmdIdmReplay(args []string) error {
	fl := flag.NewFlagSet("idmreplay", flag.ExitOnError)
	edges := fl.String("edges", "", "edge file")
	out := fl.String("out", "", "trace file of unexplained edges")
	shard := fl.Int("shard", 0, "shard")
	nshard := fl.Int("nshard", 1, "shards")
	gn := fl.String("gnames", "root,g1,g2", "group names")
	un := fl.String("unames", "root,u1,u2", "user names")
	maxID := fl.Int("maxid", 1010, "highest id probed")
	openkf := fl.String("openkf", "", "comma separated ids of open findings")
	_ = fl.Parse(args)

	in, err := os.Open(*edges)
	if err != nil {
		return err
	}
	defer in.Close()

	of, err := os.Create(*out)
	if err != nil {
		return err
	}
	defer of.Close()

	open := map[string]bool{}
	for _, k := range strings.Split(*openkf, ",") {
		open[k] = true
	}

	n, bad, used, err := drv.IdmReplay(in, of, *shard, *nshard, strings.Split(*gn, ","), strings.Split(*un, ","), *maxID, open)
	if err != nil {
		return err
	}

	b, _ := json.Marshal(map[string]any{"edges": n, "bad": bad, "used": used})
	fmt.Println(string(b))

	return nil
}

func cmdIdmConc(args []string) error {
	fl := flag.NewFlagSet("idmconc", flag.ExitOnError)
	out := fl.String("out", "", "history file")
	seed := fl.Int64("seed", 1, "seed")
	iters := fl.Int("iters", 20000, "executions")
	nproc := fl.Int("nproc", 2, "goroutines")
	gn := fl.String("gnames", "g1,g2", "group names")
	un := fl.String("unames", "u1,u2", "user names")
	_ = fl.Parse(args)

	of, err := os.Create(*out)
	if err != nil {
		return err
	}
	defer of.Close()

	gnames, unames := strings.Split(*gn, ","), strings.Split(*un, ",")

	n, err := drv.IdmConcurrent(*seed, *iters, *nproc, gnames, unames, 1010, of)
	if err != nil {
		return err
	}

	b, _ := json.Marshal(map[string]any{"executions": *iters, "distinct": n})
	fmt.Println(string(b))

	return nil
}

func cmdCopyRun(args []string) error {
	fl := flag.NewFlagSet("copyrun", flag.ExitOnError)
	plans := fl.String("plans", "", "plans emitted by CopySpec")
	out := fl.String("out", "", "recorded runs")
	pairs := fl.String("pairs", "memfs:memfs,memfs:orefafs,orefafs:memfs,osfs:memfs,memfs:osfs", "source:destination pairs")
	scratch := fl.String("scratch", os.TempDir(), "directory for osfs files")
	_ = fl.Parse(args)

	in, err := os.Open(*plans)
	if err != nil {
		return err
	}
	defer in.Close()

	of, err := os.Create(*out)
	if err != nil {
		return err
	}
	defer of.Close()

	var ps [][2]string
	for _, p := range strings.Split(*pairs, ",") {
		sd := strings.Split(p, ":")
		ps = append(ps, [2]string{sd[0], sd[1]})
	}

	n, err := drv.RunCopyPlans(in, of, ps, *scratch)
	if err != nil {
		return err
	}

	b, _ := json.Marshal(map[string]any{"runs": n})
	fmt.Println(string(b))

	return nil
}

func cmdVolReplay(args []string) error {
	fl := flag.NewFlagSet("volreplay", flag.ExitOnError)
	edges := fl.String("edges", "", "edges emitted by Volumes.tla")
	out := fl.String("out", "", "non-conforming edges")
	_ = fl.Parse(args)

	in, err := os.Open(*edges)
	if err != nil {
		return err
	}
	defer in.Close()

	of, err := os.Create(*out)
	if err != nil {
		return err
	}
	defer of.Close()

	n, bad, err := drv.VolReplay(in, of)
	if err != nil {
		return err
	}

	b, _ := json.Marshal(map[string]any{"edges": n, "bad": bad})
	fmt.Println(string(b))

	return nil
}

func cmdOsInfo() error {
	out := map[string]any{}

	for _, t := range []string{"memfs", "orefafs", "memfs-win", "orefafs-win"} {
		f, err := drv.NewFactory(t)
		if err != nil {
			return err
		}

		s, err := f.New()
		if err != nil {
			out[t] = map[string]any{"error": err.Error()}

			continue
		}

		out[t] = map[string]any{
			"ostype_sep":     []string{s.FS.OSType().String(), string(s.FS.PathSeparator())},
			"has_setostype":  s.FS.HasFeature(avfs.FeatSetOSType),
			"features":       s.FS.Features().String(),
			"volume_manager": fmt.Sprintf("%T", s.FS),
		}
	}

	b, _ := json.Marshal(out)
	fmt.Println(string(b))

	return nil
}

func cmdLexReplay(args []string) error {
	fl := flag.NewFlagSet("lexreplay", flag.ExitOnError)
	edges := fl.String("edges", "", "tables emitted by LexSpec")
	out := fl.String("out", "", "disagreements")
	_ = fl.Parse(args)

	in, err := os.Open(*edges)
	if err != nil {
		return err
	}
	defer in.Close()

	of, err := os.Create(*out)
	if err != nil {
		return err
	}
	defer of.Close()

	n, ev, err := drv.LexReplay(in, of)
	if err != nil {
		return err
	}

	b, _ := json.Marshal(map[string]any{"lines": n, "evaluations": ev})
	fmt.Println(string(b))

	return nil
}

func cmdAdversarial(args []string) error {
	fl := flag.NewFlagSet("adversarial", flag.ExitOnError)
	out := fl.String("out", "", "calls that did not return (ndjson)")
	shard := fl.Int("shard", 0, "shard")
	nshard := fl.Int("nshard", 1, "shards")
	maxTuples := fl.Int("max", 300, "argument tuples per method at most")
	_ = fl.Parse(args)

	of, err := os.Create(*out)
	if err != nil {
		return err
	}
	defer of.Close()

	st, err := drv.Adversarial(*shard, *nshard, *maxTuples, of)
	if err != nil {
		return err
	}

	b, _ := json.Marshal(st)
	fmt.Println(string(b))

	return nil
}
