----------------------------- MODULE MemIdmSpec -----------------------------
(***************************************************************************)
(* Generating state machine for C15: every mutator from every reachable    *)
(* state over a small pool of names; emits one JSON line per transition    *)
(* with the complete lookup table expected afterwards.                     *)
(***************************************************************************)
EXTENDS MemIdm, Json, CSV, IOUtils

CONSTANTS GNames, UNames, MaxIssue
VARIABLES s, hist, lastid
vars == <<s, hist, lastid>>

IC0 == [op |-> "", name |-> "", group |-> "", id |-> 0]
Calls ==
    {[IC0 EXCEPT !.op = "addgroup", !.name = n] : n \in GNames}
    \cup {[IC0 EXCEPT !.op = "delgroup", !.name = n] : n \in GNames}
    \cup {[IC0 EXCEPT !.op = "adduser", !.name = n, !.group = g] : n \in UNames, g \in GNames}
    \cup {[IC0 EXCEPT !.op = "deluser", !.name = n] : n \in UNames}

EdgeFile == IF "VERIF_EDGES" \in DOMAIN IOEnv THEN IOEnv.VERIF_EDGES ELSE ""
Emit(rec) == IF EdgeFile = "" THEN TRUE ELSE CSVWrite("%1$s", <<ToJson(rec)>>, EdgeFile)

Init == s = IdmInit /\ hist = <<>> /\ lastid = [g |-> {}, u |-> {}]

Next ==
    /\ s.maxg - MinId < MaxIssue /\ s.maxu - MinId < MaxIssue
    /\ \E c \in Calls :
        LET o == IdmApply(s, c) IN
        /\ s' = o.s
        /\ hist' = Append(hist, c)
        /\ lastid' = [g |-> o.s.issuedG \ s.issuedG, u |-> o.s.issuedU \ s.issuedU]
        /\ Emit([hist |-> hist, call |-> c, res |-> o.res, tab |-> Tables(o.s),
                 \* what the open deviation KF20 admits instead (empty when it changes nothing here)
                 alt |-> IF ResR("gid0", o.res) = o.res /\ TablesR("gid0", o.s) = Tables(o.s) THEN <<>>
                         ELSE <<[kf |-> "KF20", res |-> ResR("gid0", o.res), tab |-> TablesR("gid0", o.s)]>>])

Spec == Init /\ [][Next]_vars
View == <<s>>

Inv == IdmInv(s)
AdminFromStart == hist = <<>> => (s.gn[AdminName] = 0 /\ s.un[AdminName].uid = 0)
\* an id is never handed out twice
NeverReissued == [][(s'.issuedG \ s.issuedG) \cap s.issuedG = {} /\ \A i \in (s'.issuedG \ s.issuedG) : i > s.maxg]_vars
NeverReissuedU == [][\A i \in (s'.issuedU \ s.issuedU) : i > s.maxu /\ i \notin DOMAIN s.ui]_vars
=============================================================================
