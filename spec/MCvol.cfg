CONSTANTS
  MaxLen <- MCMaxLen
SPECIFICATION Spec
VIEW View
INVARIANT LinuxHasNoVolumes
PROPERTY Independent
CHECK_DEADLOCK FALSE
