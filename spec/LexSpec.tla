------------------------------- MODULE LexSpec -------------------------------
(* Enumerates every string over the alphabet up to a length bound and emits the expected value of every
   one-argument function for both OS flavours, and of the two-argument functions for pairs up to a smaller bound. *)
EXTENDS Lex, Json, CSV, IOUtils

CONSTANTS MaxLen1, MaxLen2
VARIABLES cur, phase
vars == <<cur, phase>>

Alphabet == {"a", "b", "C", ".", "/", "\\", ":", "?", "*", "-"}
RECURSIVE Strs(_)
Strs(n) == IF n = 0 THEN {<<>>} ELSE LET s == Strs(n - 1) IN s \cup {Append(x, c) : x \in {y \in s : Len(y) = n - 1}, c \in Alphabet}

InWinDomain(s) ==
    /\ ~(Len(s) >= 2 /\ IsSep("windows", s[1]) /\ IsSep("windows", s[2]))
    /\ ~(Len(s) >= 2 /\ s[2] = ":" /\ s[1] \notin Letters)
    /\ ~(Len(s) >= 4 /\ VolLen("windows", s) = 2 /\ IsSep("windows", s[3]) /\ IsSep("windows", s[4]))
    /\ ~(Len(s) >= 3 /\ IsSep("windows", s[1]) /\ s[2] = "?" /\ s[3] = "?")      \* \??\ root local device paths
    \* (the part behind a drive looking like a drive again, with something else than a letter: Dir cleans that part on its own)
    /\ ~(Len(s) >= 4 /\ VolLen("windows", s) = 2 /\ s[4] = ":" /\ s[3] \notin Letters)

One(os, s) ==
    [os |-> os, s |-> s, clean |-> Clean(os, s), isabs |-> IsAbs(os, s), vol |-> VolumeName(os, s),
     fromslash |-> FromSlash(os, s), toslash |-> ToSlash(os, s), dir |-> Dir(os, s), base |-> Base(os, s),
     splitdir |-> Split(os, s).dir, splitfile |-> Split(os, s).file,
     parts |-> IF os = "linux" /\ IsAbs(os, s) /\ Clean(os, s) = s THEN IterParts(s) ELSE <<>>]

PatAlphabet == {"a", "b", "*", "?", "/"}
RECURSIVE PStrs(_, _)
PStrs(n, al) == IF n = 0 THEN {<<>>} ELSE LET s == PStrs(n - 1, al) IN s \cup {Append(x, c) : x \in {y \in s : Len(y) = n - 1}, c \in al}

\* patterns are concatenations of up to 2 tokens (names grow with MaxLen2), so that classes, ranges, negations, escapes and every
\* way of leaving them unfinished occur next to each other and to the wildcards
MTokens == {<<"a">>, <<"b">>, <<"*">>, <<"?">>, <<"/">>, <<"\\">>, <<"\\", "a">>, <<"\\", "\\">>, <<"\\", "[">>, <<"\\", "*">>,
            <<"[", "a", "]">>, <<"[", "^", "a", "]">>, <<"[", "a", "-", "b", "]">>, <<"[", "b", "-", "a", "]">>,
            <<"[", "\\", "]">>, <<"[", "\\", "a", "]">>, <<"[", "a", "\\", "]", "]">>, <<"[", "\\", "-", "a", "]">>,
            <<"[", "\\", "\\", "]">>, <<"[", "^", "\\", "]">>, <<"[", "/", "]">>, <<"[", "^", "/", "]">>, <<"[", "*", "]">>,
            <<"[", "]">>, <<"[", "a">>, <<"[", "^", "]">>, <<"[", "a", "-">>, <<"[", "a", "-", "]">>, <<"[", "-", "a", "]">>,
            <<"[", "]", "a", "]">>, <<"[">>, <<"]">>, <<"-">>, <<"^">>, <<"[", "a", "b", "]">>, <<"[", "^", "a", "-", "b", "]">>}
RECURSIVE MPats(_)
MPats(k) == IF k = 0 THEN {<<>>} ELSE LET s == MPats(k - 1) IN s \cup {x \o t : x \in s, t \in MTokens}
MNames == PStrs(IF MaxLen1 >= 5 THEN 3 ELSE 2, {"a", "b", "/", "\\", "-", "]", "_"})

\* structured operands for the two-argument functions: up to three elements from {.., ., a, b}, absolute or not,
\* so that bases and targets climbing several levels occur (as plain strings they would need length 5 and more)
PElems == {<<".", ".">>, <<".">>, <<"a">>, <<"b">>}
RECURSIVE PJoin(_)
PJoin(es) == IF es = <<>> THEN <<>> ELSE IF Len(es) = 1 THEN es[1] ELSE es[1] \o <<"/">> \o PJoin(Tail(es))
PSeqs == {<<e>> : e \in PElems} \cup {<<e, f>> : e \in PElems, f \in PElems} \cup {<<e, f, g>> : e \in PElems, f \in PElems, g \in PElems}
RelOperands == {PJoin(es) : es \in PSeqs} \cup {<<"/">> \o PJoin(es) : es \in PSeqs} \cup {<<"/">>, <<>>}

Two(a, b) ==
    [a |-> a, b |-> b, join |-> Join2("linux", a, b), rel |-> RelL(a, b).path, relerr |-> RelL(a, b).err,
     windom |-> InWinDomain(a) /\ InWinDomain(b) /\ InWinDomain(a \o <<"\\">> \o b)]

EdgeFile == IF "VERIF_EDGES" \in DOMAIN IOEnv THEN IOEnv.VERIF_EDGES ELSE ""
Emit(rec) == IF EdgeFile = "" THEN TRUE ELSE CSVWrite("%1$s", <<ToJson(rec)>>, EdgeFile)

\* One initial state per FIRST operand (TLC builds the set of initial states on a single thread, so it is kept
\* small); the step of each state emits the tables for every second operand, on all workers in parallel.
SimpleNames == PStrs(MaxLen2 + 1, {"a", "b", "/"})
Init == phase = "go" /\ cur \in ({[t |-> "one", s |-> s] : s \in Strs(MaxLen1)}
                                 \cup {[t |-> "two", s |-> a] : a \in Strs(MaxLen2) \cup RelOperands}
                                 \cup {[t |-> "match", s |-> p] : p \in PStrs(MaxLen2 + 1, PatAlphabet) \cup MPats(2)})
Seconds(a) == (IF a \in Strs(MaxLen2) THEN Strs(MaxLen2) ELSE {}) \cup (IF a \in RelOperands THEN RelOperands ELSE {})
NamesFor(p) == (IF p \in PStrs(MaxLen2 + 1, PatAlphabet) THEN SimpleNames ELSE {}) \cup (IF p \in MPats(2) THEN MNames ELSE {})
Next == /\ phase = "go" /\ phase' = "done" /\ cur' = cur
        /\ CASE cur.t = "one" ->
                  /\ Emit([t |-> "one", r |-> One("linux", cur.s)])
                  /\ (IF InWinDomain(cur.s) THEN Emit([t |-> "one", r |-> One("windows", cur.s)]) ELSE TRUE)
             [] cur.t = "two" -> \A b \in Seconds(cur.s) : Emit([t |-> "two", r |-> Two(cur.s, b)])
             [] cur.t = "match" -> \A n \in NamesFor(cur.s) :
                                      Emit([t |-> "match", p |-> cur.s, n |-> n, m |-> MatchL(cur.s, n),
                                            lm |-> Match("linux", cur.s, n), wm |-> Match("windows", cur.s, n)])
Spec == Init /\ [][Next]_vars

\* algebraic laws checked on the specification itself
CleanIdempotent == cur.t = "one" => (Clean("linux", Clean("linux", cur.s)) = Clean("linux", cur.s)
                                       /\ (InWinDomain(cur.s) /\ InWinDomain(Clean("windows", cur.s))
                                            => Clean("windows", Clean("windows", cur.s)) = Clean("windows", cur.s)))
\* the simple matcher used by the enumeration specification agrees with the full one where both apply
MatchAgrees == (cur.t = "match" /\ \A i \in DOMAIN cur.s : cur.s[i] \in PatAlphabet) =>
                   \A n \in SimpleNames : Match("linux", cur.s, n) = IF MatchL(cur.s, n) THEN "true" ELSE "false"
SplitReassembles == cur.t = "one" => (Split("linux", cur.s).dir \o Split("linux", cur.s).file = cur.s
                                        /\ Split("windows", cur.s).dir \o Split("windows", cur.s).file = cur.s)
=============================================================================
