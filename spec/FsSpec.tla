------------------------------- MODULE FsSpec -------------------------------
(***************************************************************************)
(* The generating state machine: every call template from every reachable  *)
(* state of a small universe.  TLC checks the tree invariants and the      *)
(* action properties of C05 on it and, from inside Next, emits one JSON    *)
(* line per transition (history, call, expected result, expected tree)     *)
(* which the Go driver replays against the real file systems.              *)
(***************************************************************************)
EXTENDS Wrappers, Json, CSV, IOUtils

CONSTANTS Names,      \* names of the universe, e.g. {"a", "b"}
          MaxLen,     \* bound on the history length
          Profile     \* which call templates: "ns" | "nssym" | "handles" | ...

VARIABLES st, hist, last
vars == <<st, hist, last>>

C0 == [op |-> "", v |-> 0, p |-> NoPath, q |-> NoPath, flag |-> <<>>, perm |-> 0, data |-> <<>>,
       n |-> 0, off |-> 0, wh |-> 0, h |-> 0, uid |-> 0, gid |-> 0]

AbsP(parts) == [abs |-> TRUE, parts |-> parts]
RelP(parts) == [abs |-> FALSE, parts |-> parts]
RootP == AbsP(<<>>)

WorkP == AbsP(<<"w">>)
P1 == {<<"w", a>> : a \in Names}
P2 == {<<"w", a, b>> : a \in Names, b \in Names}
Paths == {AbsP(x) : x \in P1 \cup P2}
PathsR == Paths \cup {RootP, WorkP}

FlagSets == {<<"RDONLY">>, <<"WRONLY">>, <<"RDWR">>,
             <<"WRONLY", "CREATE">>, <<"RDONLY", "CREATE">>, <<"RDWR", "CREATE", "EXCL">>,
             <<"WRONLY", "CREATE", "TRUNC">>, <<"RDONLY", "TRUNC">>, <<"WRONLY", "APPEND", "CREATE">>,
             <<"RDWR", "TRUNC">>}

\* symlink targets: sibling, parent-relative, absolute, self-ish
Targets == {RelP(<<a>>) : a \in Names} \cup {RelP(<<"..", a>>) : a \in Names}
           \cup {AbsP(<<"w", a>>) : a \in Names} \cup {AbsP(<<"w", a, b>>) : a \in Names, b \in Names}
           \cup {RelP(<<".">>), RelP(<<"..">>)}

NsCalls ==
    {[C0 EXCEPT !.op = "mkdir", !.p = p, !.perm = 493] : p \in PathsR}
    \cup {[C0 EXCEPT !.op = "mkdirall", !.p = p, !.perm = 493] : p \in PathsR}
    \cup {[C0 EXCEPT !.op = "openclose", !.p = p, !.flag = f, !.perm = 420] : p \in PathsR, f \in FlagSets}
    \cup {[C0 EXCEPT !.op = "create", !.p = p] : p \in Paths}
    \cup {[C0 EXCEPT !.op = "writefile", !.p = p, !.data = d, !.perm = 420] : p \in Paths, d \in {<<1>>, <<2, 2>>}}
    \cup {[C0 EXCEPT !.op = "remove", !.p = p] : p \in PathsR}
    \cup {[C0 EXCEPT !.op = "removeall", !.p = p] : p \in PathsR}
    \cup {[C0 EXCEPT !.op = "rename", !.p = p, !.q = q] : p \in PathsR, q \in PathsR}
    \cup {[C0 EXCEPT !.op = "link", !.p = p, !.q = q] : p \in PathsR, q \in PathsR}
    \cup {[C0 EXCEPT !.op = "truncate", !.p = p, !.n = n] : p \in PathsR, n \in {-1, 0, 1, 3}}
    \cup {[C0 EXCEPT !.op = "chmod", !.p = p, !.perm = m] : p \in Paths, m \in {448, 292}}
    \cup {[C0 EXCEPT !.op = "chtimes", !.p = p, !.n = 5] : p \in Paths}
    \cup {[C0 EXCEPT !.op = "chdir", !.p = p] : p \in PathsR}
    \cup {[C0 EXCEPT !.op = "createtemp", !.p = p] : p \in {WorkP} \cup {AbsP(x) : x \in P1}}
    \cup {[C0 EXCEPT !.op = "mkdirtemp", !.p = p] : p \in {WorkP} \cup {AbsP(x) : x \in P1}}

SymCalls ==
    {[C0 EXCEPT !.op = "symlink", !.p = p, !.q = t] : p \in Paths, t \in Targets}
    \cup {[C0 EXCEPT !.op = "lchown", !.p = p, !.uid = 1001, !.gid = 1001] : p \in Paths}

OwnCalls ==
    {[C0 EXCEPT !.op = "chown", !.p = p, !.uid = u, !.gid = g] : p \in Paths, u \in {1001, -1}, g \in {1001}}

(***************************************************************************)
(* Profile "handles" (C02): one or two names of one file, up to MaxH open  *)
(* handles, offsets and lengths straddling the current size.               *)
(***************************************************************************)
MaxH == 2
MaxSize == 7
FA == AbsP(<<"w", "a">>)
FB == AbsP(<<"w", "b">>)
OpenFlagSets ==
    {<<acc>> \o app \o cr \o tr : acc \in {"RDONLY", "WRONLY", "RDWR"}, app \in {<<>>, <<"APPEND">>},
                                   cr \in {<<>>, <<"CREATE">>, <<"CREATE", "EXCL">>, <<"EXCL">>}, tr \in {<<>>, <<"TRUNC">>}}

SizeOfH(s, h) == IF s.h[h].open /\ ~s.h[h].dir /\ s.h[h].ino \in DOMAIN s.ino THEN Len(s.ino[s.h[h].ino].data) ELSE 0

HCallsFor(s, h) ==
    LET sz == SizeOfH(s, h)
        offs == {-1, 0, sz - 1, sz, sz + 2} \cap (-1..MaxSize) IN
    {[C0 EXCEPT !.op = "read", !.h = h, !.n = n] : n \in {0, 1, 3}}
    \cup {[C0 EXCEPT !.op = "readat", !.h = h, !.n = n, !.off = o] : n \in {0, 2}, o \in offs}
    \cup {[C0 EXCEPT !.op = "write", !.h = h, !.data = d] : d \in {<<1>>, <<2, 2, 2>>, <<>>}}
    \cup {[C0 EXCEPT !.op = "writestring", !.h = h, !.data = d] : d \in {<<3>>, <<>>}}
    \cup {[C0 EXCEPT !.op = "writeat", !.h = h, !.data = d, !.off = o] : o \in offs, d \in {<<3, 3>>, <<>>}}
    \* directory offsets are opaque cookies on Linux: only the rewind Seek(0, 0) is generated for directories
    \cup (IF s.h[h].dir THEN {[C0 EXCEPT !.op = "seek", !.h = h, !.off = 0, !.wh = 0]}
          ELSE {[C0 EXCEPT !.op = "seek", !.h = h, !.off = o, !.wh = wh] : o \in {-1, 0, 1, sz + 2}, wh \in {0, 1, 2}}
               \cup {[C0 EXCEPT !.op = "seek", !.h = h, !.off = 0, !.wh = 7]})
    \cup {[C0 EXCEPT !.op = "ftruncate", !.h = h, !.n = n] : n \in {-1, 0, 1, sz + 2}}
    \cup {[C0 EXCEPT !.op = o, !.h = h] : o \in {"fstat", "fsync", "close", "fchdir"}}
    \cup {[C0 EXCEPT !.op = "fchmod", !.h = h, !.perm = 384]}
    \* (1000000 stands for the largest int: the driver passes math.MaxInt)
    \cup {[C0 EXCEPT !.op = o, !.h = h, !.n = n] : o \in {"freaddir", "freaddirnames"}, n \in {-1, 0, 1, 2, 1000000}}

HandleProfileCalls(s) ==
    (IF Len(s.h) < MaxH
        THEN {[C0 EXCEPT !.op = "open", !.p = p, !.flag = f, !.perm = 420] : p \in {FA, FB}, f \in OpenFlagSets}
             \cup {[C0 EXCEPT !.op = "open", !.p = WorkP, !.flag = <<"RDONLY">>]}
             \* names relative to the working directory /w: a bare file name, and the directory itself as "."
             \cup {[C0 EXCEPT !.op = "open", !.p = RelP(<<"a">>), !.flag = f, !.perm = 420] : f \in {<<"RDONLY">>, <<"RDWR">>, <<"WRONLY", "CREATE">>}}
             \cup {[C0 EXCEPT !.op = "open", !.p = RelP(<<".">>), !.flag = <<"RDONLY">>]}
        ELSE {})
    \cup UNION {HCallsFor(s, h) : h \in DOMAIN s.h}
    \cup {[C0 EXCEPT !.op = "truncate", !.p = FA, !.n = n] : n \in {0, 2, 5}}
    \cup {[C0 EXCEPT !.op = "rename", !.p = FA, !.q = FB], [C0 EXCEPT !.op = "rename", !.p = FB, !.q = FA],
          [C0 EXCEPT !.op = "link", !.p = FA, !.q = FB], [C0 EXCEPT !.op = "remove", !.p = FA],
          [C0 EXCEPT !.op = "remove", !.p = FB], [C0 EXCEPT !.op = "writefile", !.p = FA, !.data = <<1, 1, 1>>, !.perm = 420],
          [C0 EXCEPT !.op = "readfile", !.p = FA], [C0 EXCEPT !.op = "readfile", !.p = FB]}

(***************************************************************************)
(* Profile "dirh" (C02): directory handles over a directory with three     *)
(* entries - batches of every size incl. the largest int, two cursors,     *)
(* rewinds, entries coming and going between two batches.                  *)
(***************************************************************************)
DirhHist == <<[C0 EXCEPT !.op = "writefile", !.p = FA, !.data = <<1>>, !.perm = 420],
              [C0 EXCEPT !.op = "writefile", !.p = FB, !.data = <<2>>, !.perm = 420],
              [C0 EXCEPT !.op = "mkdir", !.p = AbsP(<<"w", "d">>), !.perm = 493]>>
DirhCalls(s) ==
    (IF Len(s.h) < 2 THEN {[C0 EXCEPT !.op = "open", !.p = WorkP, !.flag = <<"RDONLY">>]} ELSE {})
    \cup {[C0 EXCEPT !.op = o, !.h = h, !.n = n] : o \in {"freaddir", "freaddirnames"}, h \in DOMAIN s.h, n \in {-1, 0, 1, 2, 1000000}}
    \cup {[C0 EXCEPT !.op = "seek", !.h = h, !.off = 0, !.wh = 0] : h \in DOMAIN s.h}
    \cup {[C0 EXCEPT !.op = "close", !.h = h] : h \in DOMAIN s.h}
    \cup {[C0 EXCEPT !.op = "writefile", !.p = AbsP(<<"w", "c">>), !.data = <<3>>, !.perm = 420],
          [C0 EXCEPT !.op = "remove", !.p = FA], [C0 EXCEPT !.op = "remove", !.p = FB]}

FirstName == CHOOSE a \in Names : TRUE
FirstNameOf == CHOOSE a \in Names : \A b \in Names : RankOf(a) <= RankOf(b)

(***************************************************************************)
(* Profile "symq" (C04): configured initial states - every link graph over *)
(* the names in /w (each name absent, a file, a directory, or a symbolic   *)
(* link with one of the target shapes) next to a fixed directory /w/s -    *)
(* crossed with every query path through those names and the operations   *)
(* that follow or do not follow links.                                     *)
(***************************************************************************)
SubS == AbsP(<<"w", "s">>)
\* (with three names every link points at itself or at the NEXT name - chains and cycles of every length up to
\* three still occur, and the universe stays at 343 graphs instead of 3375)
NextName(x) == CASE x = "a" -> "b" [] x = "b" -> "c" [] OTHER -> "a"
LinkShapes(x) ==
    IF Cardinality(Names) >= 3
    THEN {RelP(<<x>>), RelP(<<NextName(x)>>), RelP(<<"..", "w", NextName(x)>>), AbsP(<<"w", NextName(x)>>), RelP(<<"s">>)}
    ELSE
    {RelP(<<y>>) : y \in Names} \cup {RelP(<<"..", "w", y>>) : y \in Names} \cup {AbsP(<<"w", y>>) : y \in Names}
    \cup {RelP(<<"s", "f">>), RelP(<<"s", "u">>), RelP(<<"s">>)}
Kinds(x) == {[k |-> "none", t |-> NoPath], [k |-> "file", t |-> NoPath], [k |-> "dir", t |-> NoPath]}
            \cup {[k |-> "link", t |-> t] : t \in LinkShapes(x)}

Mk(op, p) == [C0 EXCEPT !.op = op, !.p = p, !.perm = IF op = "mkdir" THEN 493 ELSE 420, !.data = IF op = "writefile" THEN <<1>> ELSE <<>>]
FixedCalls == <<Mk("mkdir", SubS), Mk("writefile", AbsP(<<"w", "s", "f">>)),
                [Mk("symlink", AbsP(<<"w", "s", "u">>)) EXCEPT !.q = RelP(<<"..", FirstNameOf>>)]>>
CallsForName(x, kd) ==
    CASE kd.k = "none" -> <<>>
      [] kd.k = "file" -> <<Mk("writefile", AbsP(<<"w", x>>))>>
      [] kd.k = "dir"  -> <<Mk("mkdir", AbsP(<<"w", x>>)), Mk("writefile", AbsP(<<"w", x, "f">>))>>
      [] kd.k = "link" -> << [Mk("symlink", AbsP(<<"w", x>>)) EXCEPT !.q = kd.t] >>

RECURSIVE GraphCalls(_, _)
GraphCalls(g, todo) ==
    IF todo = {} THEN <<>>
    ELSE LET x == CHOOSE n \in todo : \A m \in todo : RankOf(n) <= RankOf(m) IN
         CallsForName(x, g[x]) \o GraphCalls(g, todo \ {x})

RECURSIVE RunCalls(_, _)
RunCalls(s, cs) == IF cs = <<>> THEN s ELSE RunCalls(Apply(s, Head(cs)).st, Tail(cs))

Graphs == [Names -> UNION {Kinds(x) : x \in Names}]
GraphHist(g) == FixedCalls \o GraphCalls(g, Names)

QNames == Names \cup {"s", "f", "u"}
QPaths == {AbsP(<<"w", x>>) : x \in Names}
          \cup {AbsP(<<"w", x, y>>) : x \in Names, y \in QNames}
          \cup {AbsP(<<"w", x, y, "f">>) : x \in Names, y \in Names \cup {"s"}}
FreshQ == AbsP(<<"w", "zz">>)
SymQCalls ==
    {[C0 EXCEPT !.op = o, !.p = p] : o \in {"stat", "lstat", "readlink", "evalsymlinks", "readfile", "readdir", "remove", "chdir"}, p \in QPaths}
    \cup {[C0 EXCEPT !.op = "openclose", !.p = p, !.flag = f, !.perm = 420] : p \in QPaths, f \in {<<"RDONLY">>, <<"WRONLY", "CREATE">>}}
    \cup {[C0 EXCEPT !.op = "chmod", !.p = p, !.perm = 448] : p \in QPaths}
    \cup {[C0 EXCEPT !.op = "truncate", !.p = p, !.n = 0] : p \in QPaths}
    \cup {[C0 EXCEPT !.op = "lchown", !.p = p, !.uid = 1001, !.gid = 1001] : p \in QPaths}
    \cup {[C0 EXCEPT !.op = "mkdir", !.p = [p EXCEPT !.parts = Append(@, "zz")], !.perm = 493] : p \in QPaths}
    \cup {[C0 EXCEPT !.op = o, !.p = p, !.q = FreshQ] : o \in {"rename", "link"}, p \in QPaths}

(***************************************************************************)
(* Profile "enum" (C14): trees built by elementary calls, then Glob with   *)
(* every pattern, WalkDir with every callback policy (SkipDir / SkipAll /  *)
(* an error at every visit index) and the existence helpers.               *)
(***************************************************************************)
EnumBuild ==
    {Mk("mkdir", p) : p \in Paths} \cup {Mk("writefile", p) : p \in Paths}
    \cup {[Mk("symlink", AbsP(x)) EXCEPT !.q = RelP(<<y>>)] : x \in P1, y \in Names}
    \cup {[C0 EXCEPT !.op = "chdir", !.p = WorkP]}
GlobSegs == {"*", "?", "a", "b", "a*", "*b", "??", "[ab]", "[^a]", "\\a", "*a*"}
GlobPatterns ==
    {AbsP(<<"w", s1>>) : s1 \in GlobSegs} \cup {AbsP(<<"w", s1, s2>>) : s1 \in GlobSegs, s2 \in GlobSegs}
    \cup {AbsP(<<"*", s1>>) : s1 \in {"*", "a"}} \cup {AbsP(<<"*", "*", s1>>) : s1 \in {"*", "b"}}
    \cup {RelP(<<s1>>) : s1 \in GlobSegs} \cup {RelP(<<s1, s2>>) : s1 \in {"*", "a", "?"}, s2 \in {"*", "b", "a"}}
    \* a literal last element that is no directory entry: a trailing separator, "." and ".." (after a wildcard directory part)
    \* (not after a literal directory part: a meta-free pattern is an Lstat of the path, and avfs reads paths in
    \* their Clean() form by the convention of C01)
    \cup {AbsP(<<"w", s1, x>>) : s1 \in {"*", "?"}, x \in {"", ".", ".."}}
    \* malformed patterns: rejected when the matcher reaches the malformed chunk
    \cup {AbsP(<<"w", "*", "[a", "*">>), AbsP(<<"w", "?", "[a">>), AbsP(<<"*", "[">>)}
    \cup {AbsP(<<"w", x>>) : x \in BadSegs} \cup {AbsP(<<"w", "*", x>>) : x \in BadSegs} \cup {AbsP(<<"w", x, "*">>) : x \in BadSegs}
    \cup {AbsP(<<"c", "c", x>>) : x \in BadSegs} \cup {RelP(<<x>>) : x \in BadSegs}
EnumCalls ==
    {[C0 EXCEPT !.op = "glob", !.p = p] : p \in GlobPatterns}
    \cup {[C0 EXCEPT !.op = "walk", !.p = p, !.n = k, !.flag = <<a>>] : p \in {WorkP, RootP} \cup {AbsP(x) : x \in P1},
                                                                         k \in 1..6, a \in {"SkipDir", "SkipAll", "Err"}}
    \cup {[C0 EXCEPT !.op = "walk", !.p = p] : p \in PathsR}
    \cup {[C0 EXCEPT !.op = o, !.p = p] : o \in {"exists", "direxists", "isdir", "isempty", "readdir"}, p \in PathsR}

(***************************************************************************)
(* Profile "nsseed": the namespace templates from configured, richer trees *)
(* (a directory with content, a file with a second hard link outside its   *)
(* directory, nested directories) - states that need 4-6 calls to build.   *)
(***************************************************************************)
SeedHists ==
    {<<Mk("mkdir", AbsP(<<"w", "a">>)), Mk("writefile", AbsP(<<"w", "a", "a">>)),
       [Mk("link", AbsP(<<"w", "a", "a">>)) EXCEPT !.q = AbsP(<<"w", "b">>)],
       Mk("mkdir", AbsP(<<"w", "a", "b">>))>>,
     <<Mk("mkdir", AbsP(<<"w", "a">>)), Mk("mkdir", AbsP(<<"w", "a", "b">>)), Mk("mkdir", AbsP(<<"w", "b">>)),
       Mk("writefile", AbsP(<<"w", "b", "a">>)), [Mk("link", AbsP(<<"w", "b", "a">>)) EXCEPT !.q = AbsP(<<"w", "a", "a">>)]>>,
     <<Mk("writefile", AbsP(<<"w", "a">>)), [Mk("link", AbsP(<<"w", "a">>)) EXCEPT !.q = AbsP(<<"w", "b">>)]>>,
     \* a directory with content reachable through a symbolic link as well (moving it below itself through the link)
     <<Mk("mkdir", AbsP(<<"w", "a">>)), Mk("writefile", AbsP(<<"w", "a", "a">>)),
       [Mk("symlink", AbsP(<<"w", "b">>)) EXCEPT !.q = RelP(<<"a">>)]>>}

(***************************************************************************)
(* Profile "symchain": chains l1 -> l2 -> ... -> ln -> file, around the    *)
(* budgets of the kernel (40) and of EvalSymlinks (255).                   *)
(***************************************************************************)
LName(i) == "l" \o ToString(i)
ChainLens == {1, 2, 39, 40, 41, 64, 65, 255, 256}
ChainHist(n) ==
    <<Mk("writefile", AbsP(<<"w", "t">>))>>
    \o [i \in 1..n |-> [Mk("symlink", AbsP(<<"w", LName(i)>>)) EXCEPT !.q = RelP(<<IF i = n THEN "t" ELSE LName(i + 1)>>)]]
ChainCalls ==
    {[C0 EXCEPT !.op = o, !.p = AbsP(<<"w", "l1">>)] : o \in {"stat", "lstat", "evalsymlinks", "readfile", "chdir", "readlink"}}
    \cup {[C0 EXCEPT !.op = "openclose", !.p = AbsP(<<"w", "l1">>), !.flag = <<"RDONLY">>]}
    \cup {[C0 EXCEPT !.op = "truncate", !.p = AbsP(<<"w", "l1">>), !.n = 0]}

(***************************************************************************)
(* Profiles "perm1" / "perm2" (C03): configured initial states - the       *)
(* directories /w/d and /w/e and the files /w/d/f and /w/e/b with every    *)
(* owner class relative to the acting user (owner / group member / other), *)
(* every rwx triple for that class (the two other classes get the          *)
(* COMPLEMENT, so that picking the wrong class flips every decision),      *)
(* sticky and set-gid directories, several umasks, /w with and without     *)
(* search permission - crossed with every path-taking call by the          *)
(* non-administrator u1 (uid 1001, gid 1001) and by the administrator.     *)
(* MaxLen is the size level: 1 = quick slice, 2 = thorough.                *)
(***************************************************************************)
PD == AbsP(<<"w", "d">>)
PE == AbsP(<<"w", "e">>)
PF == AbsP(<<"w", "d", "f">>)
PG == AbsP(<<"w", "e", "b">>)
PNewD == AbsP(<<"w", "d", "a">>)
PNewE == AbsP(<<"w", "e", "a">>)
Classes == {"own", "grp", "oth"}
OwnerOfClass(cl) == CASE cl = "own" -> <<1001, 1002>> [] cl = "grp" -> <<1002, 1001>> [] OTHER -> <<1002, 1002>>
ShiftOfClass(cl) == CASE cl = "own" -> 64 [] cl = "grp" -> 8 [] OTHER -> 1
PermMode(cl, rwx, extra) ==
    LET sh == ShiftOfClass(cl) IN
    rwx * sh + (7 - rwx) * ((64 + 8 + 1) - sh) + extra
NodeCfgs(rwxs, extras) == [cl : Classes, rwx : rwxs, extra : extras]
CChown(p, og) == [C0 EXCEPT !.op = "chown", !.p = p, !.uid = og[1], !.gid = og[2]]
CChmod(p, m) == [C0 EXCEPT !.op = "chmod", !.p = p, !.perm = m]
Dress(p, nc) == <<CChown(p, OwnerOfClass(nc.cl)), CChmod(p, PermMode(nc.cl, nc.rwx, nc.extra))>>
PermHist(cfg) ==
    <<[Mk("mkdir", PD) EXCEPT !.perm = 511], [Mk("mkdir", PE) EXCEPT !.perm = 511], Mk("writefile", PF), Mk("writefile", PG)>>
    \o Dress(PF, cfg.f) \o Dress(PG, cfg.g) \o Dress(PD, cfg.d) \o Dress(PE, cfg.e)
    \o <<CChmod(WorkP, cfg.w), [C0 EXCEPT !.op = "setumask", !.perm = cfg.um],
         [C0 EXCEPT !.op = "setuser", !.uid = cfg.actor, !.gid = cfg.actor]>>
NC(cl, rwx, extra) == [cl |-> cl, rwx |-> rwx, extra |-> extra]
DefaultNC == NC("oth", 7, 0)
Cfg(d, e, f, g, w, um, actor) == [d |-> d, e |-> e, f |-> f, g |-> g, w |-> w, um |-> um, actor |-> actor]
AllRwx == 0..7
Perm1Cfgs ==
    \* the directory and the file of a single-path call: all classes x all triples
    {Cfg(d, DefaultNC, f, DefaultNC, 493, 18, 1001) : d \in NodeCfgs(AllRwx, {0}), f \in NodeCfgs(IF MaxLen >= 2 THEN AllRwx ELSE {0, 2, 4, 6, 7}, {0})}
    \* sticky and set-gid directories
    \cup {Cfg(d, DefaultNC, f, DefaultNC, 493, 18, 1001) : d \in NodeCfgs({3, 7}, {512, 1024}), f \in NodeCfgs({6}, {0})}
    \* set-uid / set-gid files: changing their content as a non-administrator takes the bits away
    \cup {Cfg(NC("own", 7, 0), DefaultNC, f, DefaultNC, 493, 18, a) : f \in NodeCfgs({2, 3, 6, 7}, {2048, 1024, 3072}), a \in {1001, 0}}
    \* other umasks for the creating calls
    \cup {Cfg(d, DefaultNC, NC("own", 6, 0), DefaultNC, 493, um, 1001) : d \in NodeCfgs({7}, {0, 1024}), um \in {0, 63, 511}}
    \* /w without search or read permission for the acting user (who is "other" for /w)
    \cup {Cfg(NC("own", 7, 0), DefaultNC, NC("own", 7, 0), DefaultNC, w, 18, 1001) : w \in {492, 488, 489}}
    \* the administrator is never refused
    \cup {Cfg(d, DefaultNC, f, DefaultNC, 448, um, 0) : d \in NodeCfgs({0}, {0, 512}), f \in NodeCfgs({0}, {0}), um \in {18, 63}}
Perm2Rwx == IF MaxLen >= 2 THEN AllRwx ELSE {0, 1, 2, 3, 7}
Perm2Cfgs ==
    {Cfg(d, e, f, NC("oth", 6, 0), 493, 18, 1001) : d \in NodeCfgs(Perm2Rwx, {0}), e \in NodeCfgs(Perm2Rwx, {0}), f \in NodeCfgs({6}, {0})}
    \cup {Cfg(d, e, f, g, 493, 18, 1001) : d \in NodeCfgs({3}, {0, 512}), e \in NodeCfgs({3}, {0, 512}), f \in NodeCfgs({6}, {0}), g \in NodeCfgs({6}, {0})}
    \cup {Cfg(NC("oth", 0, 0), NC("oth", 0, 512), NC("oth", 0, 0), NC("oth", 0, 0), 448, 18, 0)}
PermOpenFlags == {<<"RDONLY">>, <<"WRONLY">>, <<"RDWR">>, <<"WRONLY", "TRUNC">>, <<"WRONLY", "APPEND">>, <<"RDONLY", "TRUNC">>}
Perm1Calls ==
    {[C0 EXCEPT !.op = o, !.p = p] : o \in {"stat", "lstat", "readfile", "evalsymlinks", "remove", "removeall", "chdir", "readdir"}, p \in {PF, PD}}
    \cup {[C0 EXCEPT !.op = "openclose", !.p = PF, !.flag = f] : f \in PermOpenFlags}
    \cup {[C0 EXCEPT !.op = "openclose", !.p = PD, !.flag = <<"RDONLY">>]}
    \cup {[C0 EXCEPT !.op = "openclose", !.p = PNewD, !.flag = f, !.perm = 438] : f \in {<<"WRONLY", "CREATE">>, <<"RDWR", "CREATE", "EXCL">>, <<"RDONLY", "CREATE">>}}
    \cup {[C0 EXCEPT !.op = "truncate", !.p = PF, !.n = n] : n \in {0, 1, 2}}      \* shorter, the current size, longer
    \cup {[C0 EXCEPT !.op = "chtimes", !.p = PF, !.n = 5], [C0 EXCEPT !.op = "chtimes", !.p = PD, !.n = 5]}
    \cup {[C0 EXCEPT !.op = "chmod", !.p = p, !.perm = m] : p \in {PF, PD}, m \in {384, 3071}}
    \cup {[C0 EXCEPT !.op = o, !.p = PF, !.uid = u, !.gid = g] : o \in {"chown", "lchown"}, u \in {-1, 1001, 1002}, g \in {-1, 1001, 1002}}
    \cup {[C0 EXCEPT !.op = "chown", !.p = PD, !.uid = -1, !.gid = 1001]}
    \cup {[C0 EXCEPT !.op = "mkdir", !.p = PNewD, !.perm = m] : m \in {511, 1517}}
    \cup {[C0 EXCEPT !.op = "mkdirall", !.p = AbsP(<<"w", "d", "a", "b">>), !.perm = 511]}
    \cup {[C0 EXCEPT !.op = "writefile", !.p = PNewD, !.data = <<2>>, !.perm = 438], [C0 EXCEPT !.op = "writefile", !.p = PF, !.data = <<2>>, !.perm = 438]}
    \cup {[C0 EXCEPT !.op = "create", !.p = PNewD], [C0 EXCEPT !.op = "create", !.p = PF]}
    \cup {[C0 EXCEPT !.op = "symlink", !.p = PNewD, !.q = RelP(<<"f">>)]}
    \cup {[C0 EXCEPT !.op = o, !.p = PD] : o \in {"createtemp", "mkdirtemp"}}
    \cup {[C0 EXCEPT !.op = o, !.p = PF, !.q = PNewD] : o \in {"rename", "link"}}
Perm2Calls ==
    {[C0 EXCEPT !.op = o, !.p = PF, !.q = q] : o \in {"rename", "link"}, q \in {PNewE, PG}}
    \cup {[C0 EXCEPT !.op = "rename", !.p = PD, !.q = PNewE], [C0 EXCEPT !.op = "rename", !.p = PE, !.q = PNewD]}
    \cup {[C0 EXCEPT !.op = "rename", !.p = PG, !.q = PF]}
PermCfgs == IF Profile = "perm1" THEN Perm1Cfgs ELSE Perm2Cfgs

\* Profile "perm3": a deeper tree for the calls that work through a subtree (RemoveAll): /w/d holds a file with a
\* second name outside (/w/e/l) and a directory /w/d/s with a file of its own, so that a removal refused half-way
\* leaves something behind whose link counts must still be right
PS == AbsP(<<"w", "d", "s">>)
PSB == AbsP(<<"w", "d", "s", "b">>)
PL == AbsP(<<"w", "e", "l">>)
Perm3Hist(cfg) ==
    <<[Mk("mkdir", PD) EXCEPT !.perm = 511], [Mk("mkdir", PE) EXCEPT !.perm = 511], [Mk("mkdir", PS) EXCEPT !.perm = 511],
      Mk("writefile", PF), Mk("writefile", PSB), [C0 EXCEPT !.op = "link", !.p = PF, !.q = PL]>>
    \o Dress(PS, cfg.e) \o Dress(PD, cfg.d)
    \* (/w is open to everybody, so that what happens to /w/d is decided by /w/d and what it holds)
    \o <<CChmod(WorkP, 511), [C0 EXCEPT !.op = "setumask", !.perm = 18], [C0 EXCEPT !.op = "setuser", !.uid = cfg.actor, !.gid = cfg.actor]>>
Perm3Cfgs ==
    {Cfg(d, e, DefaultNC, DefaultNC, 493, 18, 1001) : d \in NodeCfgs({7, 5, 3}, {0}), e \in NodeCfgs(IF MaxLen >= 2 THEN AllRwx ELSE {7, 5, 3, 0}, {0})}
    \cup {Cfg(NC("oth", 0, 0), NC("oth", 0, 0), DefaultNC, DefaultNC, 493, 18, 0)}
Perm3Calls ==
    {[C0 EXCEPT !.op = "removeall", !.p = p] : p \in {PD, PS, PE, PF}}
    \cup {[C0 EXCEPT !.op = "remove", !.p = p] : p \in {PS, PL}}
    \cup {[C0 EXCEPT !.op = "rename", !.p = PS, !.q = AbsP(<<"w", "d", "t">>)]}
    \cup {[C0 EXCEPT !.op = "readdir", !.p = PS], [C0 EXCEPT !.op = "walk", !.p = PD]}
    \* a callback that answers SkipDir when it is handed an error
    \cup {[C0 EXCEPT !.op = "walk", !.p = p, !.flag = <<"ErrSkip">>] : p \in {WorkP, PD, PS, PSB}}
\* Profile "perm4" (C14): the enumeration calls alone on the perm3 trees - directories that cannot be listed or searched
Perm4Calls ==
    {[C0 EXCEPT !.op = "walk", !.p = p, !.flag = f] : p \in {WorkP, PD, PS, PSB}, f \in {<<>>, <<"ErrSkip">>}}
    \cup {[C0 EXCEPT !.op = "walk", !.p = WorkP, !.n = k, !.flag = <<a>>] : k \in 1..5, a \in {"SkipDir", "SkipAll"}}
    \cup {[C0 EXCEPT !.op = "glob", !.p = p] : p \in {AbsP(<<"w", "*">>), AbsP(<<"w", "d", "*">>), AbsP(<<"w", "*", "*">>), AbsP(<<"w", "d", "s", "*">>),
                                                     AbsP(<<"w", "*", "*", "*">>), AbsP(<<"w", "d", "s", "b">>), AbsP(<<"w", "d", "?", "b">>)}}
    \cup {[C0 EXCEPT !.op = o, !.p = p] : o \in {"exists", "direxists", "isdir", "isempty", "readdir"}, p \in {PD, PS, PSB, PF}}

\* a call on a two-component path whose first component does not exist tells nothing that the
\* same call with the other second component does not: keep one representative
Pruned(s, c) ==
    LET dead(p) == /\ p.abs /\ Len(p.parts) = 3
                   /\ Res(s, AbsP(SubSeq(p.parts, 1, 2)), FALSE).id = 0
                   /\ p.parts[3] # FirstName
        \* removing or moving the working directory (or an ancestor of it) is outside the universe
        pulls(p) == LET r == Res(s, p, FALSE) IN r.err = "ok" /\ r.id # Root /\ r.id \in Range(s.cwd) IN
    \/ dead(c.p) \/ (c.op \in {"rename", "link"} /\ dead(c.q))
    \/ (c.op \in {"remove", "removeall", "rename"} /\ pulls(c.p))
    \/ (c.op = "removeall" /\ c.p = RootP /\ Len(s.cwd) > 1)

Calls(s) ==
    LET all == CASE Profile = "ns"    -> NsCalls \cup OwnCalls
                 [] Profile = "nsorefa" -> NsCalls
                 [] Profile = "nssym" -> NsCalls \cup SymCalls \cup OwnCalls
                 [] Profile = "handles" -> HandleProfileCalls(s)
                 [] Profile = "nsseed" -> NsCalls
                 [] Profile = "enum" -> (IF Len(hist) < MaxLen - 1 THEN EnumBuild ELSE {}) \cup (IF Len(hist) >= 1 THEN EnumCalls ELSE {})
                 [] Profile = "symq" -> SymQCalls
                 [] Profile = "symchain" -> ChainCalls
                 [] Profile = "dirh" -> DirhCalls(s)
                 [] Profile = "perm1" -> Perm1Calls
                 [] Profile = "perm2" -> Perm2Calls
                 [] Profile = "perm3" -> Perm3Calls
                 [] Profile = "perm4" -> Perm4Calls
                 [] OTHER -> NsCalls IN
    IF Profile \in {"symq", "symchain", "enum", "perm1", "perm2", "perm3", "perm4", "dirh"} THEN all ELSE {c \in all : ~Pruned(s, c)}

EdgeFile == IF "VERIF_EDGES" \in DOMAIN IOEnv THEN IOEnv.VERIF_EDGES ELSE ""
GenImpl == IF "VERIF_IMPL" \in DOMAIN IOEnv THEN IOEnv.VERIF_IMPL ELSE "none"

\* what the OPEN deviations of the target implementation admit for this transition instead of the strict outcome:
\* the driver accepts a replayed step that equals one of them without asking for a trace validation
AltsOf(s, c) ==
    UNION {{[impl |-> i, kf |-> o.kf, res |-> o.res, post |-> Proj(o.st), cwd |-> CwdPath(o.st), hs |-> HObs(o.st)]
            : o \in DevOutcomes(i, s, CleanCall(c))} : i \in {"memfs", "orefafs", "memfs-win", "orefafs-win"}}

Emit(rec) == IF EdgeFile = "" THEN TRUE ELSE CSVWrite("%1$s", <<ToJson(rec)>>, EdgeFile)

\* the handle profile starts with one three-byte file
HandlesHist == <<[C0 EXCEPT !.op = "writefile", !.p = FA, !.data = <<1, 2, 3, 9, 9>>, !.perm = 420],
                 [C0 EXCEPT !.op = "truncate", !.p = FA, !.n = 3],
                 [C0 EXCEPT !.op = "chdir", !.p = WorkP]>>
InitFor ==
    IF Profile = "handles"
    \* (the three-byte file is what is left of a longer one: stale bytes behind the end must never come back)
    THEN RunCalls(InitSt, HandlesHist)
    ELSE InitSt

Init ==
    /\ last = [call |-> C0, res |-> R0]
    /\ CASE Profile = "symq" -> \E g \in Graphs : hist = GraphHist(g) /\ st = RunCalls(InitSt, GraphHist(g))
         [] Profile = "nsseed" -> \E hh \in SeedHists : hist = hh /\ st = RunCalls(InitSt, hh)
         [] Profile = "symchain" -> \E n \in ChainLens : hist = ChainHist(n) /\ st = RunCalls(InitSt, ChainHist(n))
         [] Profile = "dirh" -> hist = DirhHist /\ st = RunCalls(InitSt, DirhHist)
         [] Profile \in {"perm1", "perm2"} -> \E cfg \in PermCfgs : hist = PermHist(cfg) /\ st = RunCalls(InitSt, PermHist(cfg))
         [] Profile \in {"perm3", "perm4"} -> \E cfg \in Perm3Cfgs : hist = Perm3Hist(cfg) /\ st = RunCalls(InitSt, Perm3Hist(cfg))
         [] OTHER -> st = InitFor /\ hist = <<>>

\* configured profiles issue exactly one call from each initial state
Budget == IF Profile \in {"symq", "symchain", "perm1", "perm2", "perm3", "perm4"} THEN 1 ELSE MaxLen

EmitHist == IF Profile = "handles" THEN HandlesHist \o hist ELSE hist

Next ==
    /\ (IF Profile \in {"symq", "symchain", "perm1", "perm2", "perm3", "perm4"} THEN last.call.op = ""
        ELSE IF Profile = "nsseed" THEN Len(hist) < MaxLen + 5 /\ (last.call.op = "" \/ Len(hist) < 4 + MaxLen)
        ELSE IF Profile = "dirh" THEN Len(hist) < MaxLen + 3
        ELSE Len(hist) < MaxLen)
    /\ \E c \in Calls(st) :
        LET o == Apply(st, c) IN
        /\ \A i \in DOMAIN o.st.ino : Len(o.st.ino[i].data) <= MaxSize + 3
        /\ st' = o.st
        /\ hist' = Append(hist, c)
        /\ last' = [call |-> c, res |-> o.res]
        /\ Emit([hist |-> EmitHist,
                 call |-> c, res |-> o.res, pre |-> Proj(st), post |-> Proj(o.st),
                 cwd |-> CwdPath(o.st), hs |-> HObs(o.st)])
        \* one more line per outcome an open deviation admits instead (lines stay below the 8 KiB that one
        \* appending write keeps intact when several TLC workers emit at once)
        /\ \A a \in AltsOf(st, c) : Emit([t |-> "alt", hist |-> EmitHist, call |-> c, alt |-> a])

Spec == Init /\ [][Next]_vars

\* the history is hidden: each abstract state is expanded once per depth
View == <<Proj(st), st.cwdn, st.umask, st.uid, HView(st), Len(hist)>>

(***************************************************************************)
(* C05 on the reference: the namespace is a well-formed tree.              *)
(***************************************************************************)
Entries(s) == UNION {{<<d, n>> : n \in DOMAIN s.ino[d].ent} : d \in DirIds(s)}

NoDanglingEntry == \A e \in Entries(st) : st.ino[e[1]].ent[e[2]] \in DOMAIN st.ino
RootHasNoName  == \A e \in Entries(st) : st.ino[e[1]].ent[e[2]] # Root
UniqueDirParent ==
    \A d \in DirIds(st) \ {Root} :
        Cardinality({e \in Entries(st) : st.ino[e[1]].ent[e[2]] = d}) = (IF d \in Reachable(st) THEN 1 ELSE 0)
AllNamedReachable ==
    \A i \in DOMAIN st.ino : i \in Reachable(st) \/ i \in OpenInos(st) \/ i \in Range(st.cwd)
NoDirMultiplyLinked ==
    \A i \in DOMAIN st.ino : Nlink(st, i) > 1 => st.ino[i].k # "dir"
CwdIsDirStack ==
    /\ Len(st.cwd) = Len(st.cwdn) + 1 /\ st.cwd[1] = Root
TreeWellFormed ==
    /\ NoDanglingEntry /\ RootHasNoName /\ UniqueDirParent /\ AllNamedReachable
    /\ NoDirMultiplyLinked /\ CwdIsDirStack

\* a failed call changes nothing (RemoveAll is documented to remove what it can)
FailedCallChangesNothing ==
    \* (the composite calls RemoveAll and MkdirAll keep what they did before the step that failed)
    [][(last'.res.err \notin {"ok", "EOF"} /\ last'.call.op \notin {"removeall", "mkdirall"}) => (st' = st)]_vars

\* a successful call changes only what it names: every path outside the (resolved) operands
\* keeps its inode, and every inode other than the operands' keeps its attributes and content
OperandIds(s, c) ==
    LET r1 == Res(s, c.p, TRUE)   r2 == Res(s, c.p, FALSE)
        r3 == Res(s, c.q, TRUE)   r4 == Res(s, c.q, FALSE)
        ids(r) == IF r.err = "ok" THEN ({r.id} \cup (IF r.par = <<>> THEN {} ELSE {Last(r.par)})) \ {0} ELSE {} IN
    ids(r1) \cup ids(r2) \cup ids(r3) \cup ids(r4)
    \cup (IF c.op \in HOps /\ c.h \in DOMAIN s.h THEN {s.h[c.h].ino} ELSE {})

SuccessIsLocal ==
    [][LET c == last'.call
           touched == OperandIds(st, c) \cup OperandIds(st', c)
           sub == UNION {Subtree(st, i) : i \in touched \cap DOMAIN st.ino} IN
       (last'.res.err = "ok" /\ c.op \notin {"removeall", "mkdirall"}) =>
         \A i \in (DOMAIN st.ino) \ touched :
            \/ i \in sub /\ c.op = "rename"     \* a moved subtree keeps its shape (checked below)
            \/ (i \in DOMAIN st'.ino /\ st'.ino[i] = st.ino[i])
            \/ (i \notin DOMAIN st'.ino /\ i \notin Reachable(st))
      ]_vars

=============================================================================
