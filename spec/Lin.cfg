CONSTANTS
  NameOrder <- LinNameOrder
SPECIFICATION Spec
CHECK_DEADLOCK FALSE
