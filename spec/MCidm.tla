------------------------------- MODULE MCidm -------------------------------
EXTENDS MemIdmSpec
MCG == {"root", "g1", "g2"}
MCU == {"root", "u1", "u2"}
MCMax == IF "VERIF_MAXISSUE" \in DOMAIN IOEnv THEN atoi(IOEnv.VERIF_MAXISSUE) ELSE 4
=============================================================================
