CONSTANTS
  GNames <- MCG
  UNames <- MCU
  MaxIssue <- MCMax
SPECIFICATION Spec
VIEW View
INVARIANT Inv
INVARIANT AdminFromStart
PROPERTY NeverReissued
PROPERTY NeverReissuedU
CHECK_DEADLOCK FALSE
