CONSTANTS
  Names <- MCNames
  NameOrder <- MCNameOrder
  MaxLen <- MCMaxLen
  Profile <- MCProfile
SPECIFICATION Spec
VIEW View
INVARIANT TreeWellFormed
PROPERTY FailedCallChangesNothing
PROPERTY SuccessIsLocal
CHECK_DEADLOCK FALSE
