----------------------------- MODULE FsHandles -----------------------------
(***************************************************************************)
(* Open-file semantics (os.File on Linux) on the handle records of FsCore, *)
(* and the complete dispatcher Apply / Outcomes over namespace and handle  *)
(* calls.                                                                  *)
(*                                                                         *)
(* handle = [ino, off, rd, wr, app, open, dir, dstart, dleft, name]        *)
(*   off    : file offset                                                  *)
(*   app    : O_APPEND - every write lands at the CURRENT end of file      *)
(*   dstart : a directory read has started: dleft is the snapshot of names *)
(*            not delivered yet (taken by the first read, as os.File does   *)
(*            for directories that fit its buffer)                         *)
(* An inode stays in st.ino while a handle is open on it, whatever happens *)
(* to its names (FsCore!Gc), so a handle keeps working on its file after   *)
(* rename and remove.                                                      *)
(***************************************************************************)
EXTENDS FsCore

CONSTANT NameOrder      \* sequence of names: the order in which batches are delivered in generation mode

HOps == {"read", "readat", "write", "writestring", "writeat", "seek", "ftruncate", "fstat", "fsync",
         "fchmod", "fchown", "fchdir", "close", "freaddir", "freaddirnames"}

ValidH(st, c) == c.h \in DOMAIN st.h
H(st, c) == st.h[c.h]
Node(st, c) == st.ino[H(st, c).ino]

SetH(st, c, hrec) == [st EXCEPT !.h[c.h] = hrec]

\* overwrite data at position pos (0-based) with bytes b, zero-filling any gap
WriteAtPos(data, pos, b) ==
    LET base == IF pos > Len(data) THEN data \o [i \in 1..(pos - Len(data)) |-> 0] ELSE data
        newlen == Max(Len(base), pos + Len(b)) IN
    [i \in 1..newlen |-> IF i > pos /\ i <= pos + Len(b) THEN b[i - pos] ELSE base[i]]

Read(st, c) ==
    LET h == H(st, c)   data == Node(st, c).data
        m == Max(0, Min(c.n, Len(data) - h.off)) IN
    IF c.n = 0 THEN Ok(st)         \* an empty buffer is answered before the descriptor is looked at
    ELSE IF h.dir THEN Fail("EISDIR", st)
    ELSE IF ~h.rd THEN Fail("EBADF", st)
    ELSE IF m = 0 THEN Fail("EOF", st)
    ELSE Ret([R0 EXCEPT !.n = m, !.data = SubSeq(data, h.off + 1, h.off + m)],
             SetH(st, c, [h EXCEPT !.off = @ + m]))

ReadAt(st, c) ==
    LET h == H(st, c)   data == Node(st, c).data
        m == Max(0, Min(c.n, Len(data) - c.off)) IN
    IF c.off < 0 THEN Fail("NEGOFF", st)
    ELSE IF c.n = 0 THEN Ok(st)
    ELSE IF h.dir THEN Fail("EISDIR", st)
    ELSE IF ~h.rd THEN Fail("EBADF", st)
    ELSE Ret([R0 EXCEPT !.err = IF m < c.n THEN "EOF" ELSE "ok", !.n = m,
                        !.data = IF m = 0 THEN <<>> ELSE SubSeq(data, c.off + 1, c.off + m)], st)

Write(st, c) ==
    LET h == H(st, c)   data == Node(st, c).data
        pos == IF h.app THEN Len(data) ELSE h.off IN
    IF h.dir \/ ~h.wr THEN Fail("EBADF", st)
    ELSE IF c.data = <<>> THEN Ok(st)
    ELSE Ret([R0 EXCEPT !.n = Len(c.data)],
             KillPriv([SetH(st, c, [h EXCEPT !.off = pos + Len(c.data)])
                          EXCEPT !.ino[h.ino].data = WriteAtPos(data, pos, c.data)], h.ino))

WriteAt(st, c) ==
    LET h == H(st, c)   data == Node(st, c).data IN
    IF h.app THEN Fail("EAPPENDAT", st)
    ELSE IF c.off < 0 THEN Fail("NEGOFF", st)
    ELSE IF c.data = <<>> THEN Ok(st)       \* os.File.WriteAt issues no system call for an empty buffer
    ELSE IF h.dir \/ ~h.wr THEN Fail("EBADF", st)
    ELSE Ret([R0 EXCEPT !.n = Len(c.data)],
             KillPriv([st EXCEPT !.ino[h.ino].data = WriteAtPos(data, c.off, c.data)], h.ino))

Seek(st, c) ==
    LET h == H(st, c)
        size == IF h.dir THEN 0 ELSE Len(Node(st, c).data)
        new == CASE c.wh = 0 -> c.off [] c.wh = 1 -> h.off + c.off [] c.wh = 2 -> size + c.off [] OTHER -> -1 IN
    \* (whence 3 and 4 are SEEK_DATA / SEEK_HOLE on Linux and are not modelled; a directory cannot seek from its end)
    IF c.wh \notin {0, 1, 2} \/ new < 0 \/ (h.dir /\ c.wh = 2) THEN Fail("EINVAL", st)
    ELSE Ret([R0 EXCEPT !.n = new],
             SetH(st, c, [h EXCEPT !.off = new, !.dstart = IF h.dir /\ new = 0 THEN FALSE ELSE @,
                                   !.dleft = IF h.dir /\ new = 0 THEN {} ELSE @]))

FTruncate(st, c) ==
    LET h == H(st, c) IN
    IF c.n < 0 THEN Fail("EINVAL", st)
    ELSE IF h.dir \/ ~h.wr THEN Fail("EINVAL", st)
    ELSE Ok(KillPriv([st EXCEPT !.ino[h.ino].data = Resize(@, c.n)], h.ino))

FStat(st, c) == Ret([R0 EXCEPT !.info = InfoOf(st, H(st, c).ino)], st)

FSync(st, c) == Ok(st)

FChmod(st, c) ==
    LET id == H(st, c).ino IN
    IF ~IsOwner(st, id) THEN Fail("EPERM", st)
    ELSE Ok([st EXCEPT !.ino[id].mode = And(c.perm, 4095)])

FChown(st, c) ==
    LET id == H(st, c).ino
        nd == st.ino[id]
        allowed == \/ IsAdmin(st)
                   \/ (nd.uid = st.uid /\ (c.uid = -1 \/ c.uid = nd.uid) /\ (c.gid = -1 \/ InGroup(st, c.gid)))
                   \/ (c.uid = -1 /\ c.gid = -1) IN
    IF ~allowed THEN Fail("EPERM", st)
    ELSE Ok([st EXCEPT !.ino[id].uid = IF c.uid = -1 THEN @ ELSE c.uid,
                       !.ino[id].gid = IF c.gid = -1 THEN @ ELSE c.gid])

\* fchdir(2): the working directory becomes the directory the handle is open on, wherever it is now
RECURSIVE IdsAlong(_, _, _)
IdsAlong(st, id, names) ==
    IF names = <<>> THEN <<id>> ELSE <<id>> \o IdsAlong(st, st.ino[id].ent[Head(names)], Tail(names))

FChdir(st, c) ==
    LET h == H(st, c)
        here == {pp \in AllPaths(st) : pp[2] = h.ino} IN
    IF ~h.dir THEN Fail("ENOTDIR", st)
    ELSE IF ~May(st, h.ino, 1) THEN Fail("EACCES", st)
    ELSE IF h.ino = Root THEN Ok([st EXCEPT !.cwd = <<Root>>, !.cwdn = <<>>])
    ELSE IF here = {} THEN Ok(st)     \* a removed directory: not generated, the path is undefined
    ELSE LET pp == CHOOSE x \in here : TRUE IN
         Ok([st EXCEPT !.cwd = IdsAlong(st, Root, pp[1]), !.cwdn = pp[1]])

Close(st, c) == Ok(Gc(SetH(st, c, [H(st, c) EXCEPT !.open = FALSE])))

\* directory batch reads: n > 0 delivers min(n, remaining) names then EOF; n <= 0 the rest, nil error
DirLeft(st, c) == LET h == H(st, c) IN IF h.dstart THEN h.dleft ELSE DOMAIN Node(st, c).ent

RankOf(nm) == IF \E i \in DOMAIN NameOrder : NameOrder[i] = nm
              THEN CHOOSE i \in DOMAIN NameOrder : NameOrder[i] = nm ELSE Len(NameOrder) + 1
FirstK(S, k) == {x \in S : Cardinality({y \in S : RankOf(y) < RankOf(x)}) < k}

\* all admissible outcomes of a directory read (which names come first is not specified)
FReadDirOutcomes(st, c) ==
    LET h == H(st, c)
        left == DirLeft(st, c)
        k == IF c.n <= 0 THEN Cardinality(left) ELSE Min(c.n, Cardinality(left)) IN
    IF ~h.dir THEN {Fail("ENOTDIR", st)}
    \* a removed directory cannot be read any more (entries already buffered by an earlier read still come)
    ELSE IF h.ino \notin Reachable(st) /\ (~h.dstart \/ left = {}) THEN {Fail("ENOENT", st)}
    ELSE IF c.n > 0 /\ left = {} THEN
        {Ret([R0 EXCEPT !.err = "EOF"], SetH(st, c, [h EXCEPT !.dstart = TRUE, !.dleft = {}]))}
    ELSE {Ret([R0 EXCEPT !.n = k, !.names = S],
              SetH(st, c, [h EXCEPT !.dstart = TRUE, !.dleft = left \ S]))
          : S \in {T \in SUBSET left : Cardinality(T) = k}}

\* generation mode: the batch in NameOrder
FReadDir(st, c) ==
    LET left == DirLeft(st, c)
        k == IF c.n <= 0 THEN Cardinality(left) ELSE Min(c.n, Cardinality(left)) IN
    CHOOSE o \in FReadDirOutcomes(st, c) :
        o.res.err # "ok" \/ o.res.names = FirstK(left, k)

HApply(st, c) ==
    IF ~ValidH(st, c) THEN Fail("NOHANDLE", st)
    ELSE IF ~H(st, c).open THEN Fail("CLOSED", st)
    ELSE CASE c.op = "read"          -> Read(st, c)
           [] c.op = "readat"        -> ReadAt(st, c)
           [] c.op = "write"         -> Write(st, c)
           [] c.op = "writestring"   -> Write(st, c)
           [] c.op = "writeat"       -> WriteAt(st, c)
           [] c.op = "seek"          -> Seek(st, c)
           [] c.op = "ftruncate"     -> FTruncate(st, c)
           [] c.op = "fstat"         -> FStat(st, c)
           [] c.op = "fsync"         -> FSync(st, c)
           [] c.op = "fchmod"        -> FChmod(st, c)
           [] c.op = "fchown"        -> FChown(st, c)
           [] c.op = "fchdir"        -> FChdir(st, c)
           [] c.op = "close"         -> Close(st, c)
           [] c.op \in {"freaddir", "freaddirnames"} -> FReadDir(st, c)

BaseApply(st, c) == IF c.op \in HOps THEN HApply(st, c) ELSE NsApply(st, c)

\* every admissible strict outcome of a call (a singleton except for directory batch reads and
\* for the one corner where the property's clauses disagree: closed handle and negative offset)
StrictOutcomes(st, c) ==
    IF c.op \in {"freaddir", "freaddirnames"} /\ ValidH(st, c) /\ H(st, c).open
        THEN FReadDirOutcomes(st, c)
    ELSE IF c.op \in {"readat", "writeat"} /\ ValidH(st, c) /\ ~H(st, c).open
        \* the property says "closed-file error"; os.File checks its arguments before the descriptor:
        \* both answers are admitted in that corner
        THEN {Fail("CLOSED", st)}
             \cup (IF c.op = "writeat" /\ H(st, c).app THEN {Fail("EAPPENDAT", st)}
                   ELSE IF c.off < 0 THEN {Fail("NEGOFF", st)}
                   ELSE IF c.op = "readat" /\ c.n = 0 THEN {Ok(st)}
                   ELSE IF c.op = "writeat" /\ c.data = <<>> THEN {Ok(st)}
                   ELSE {})
    ELSE IF c.op = "removeall"
        \* several entries may refuse to go: which refusal is reported depends on the (unspecified) listing order
        THEN LET x == RemoveAllX(st, c) IN
             IF x.errs = {} THEN {[res |-> x.res, st |-> x.st]} ELSE {[res |-> [x.res EXCEPT !.err = e], st |-> x.st] : e \in x.errs}
    ELSE {BaseApply(st, c)}

(***************************************************************************)
(* Observable and canonical views of the handle table.                     *)
(***************************************************************************)
\* what Stat on each handle shows (logged by the driver after every step)
\* ... and where it stands: Seek(0, io.SeekCurrent) is asked of every open file after every step (directories
\* excluded: their offsets are opaque), so that an offset gone wrong shows at once and not only at the next read
HObs(st) ==
    [i \in DOMAIN st.h |->
        IF ~st.h[i].open THEN [open |-> FALSE, k |-> "none", sz |-> 0, nl |-> 0, m |-> 0, off |-> -1]
        ELSE LET inf == InfoOf(st, st.h[i].ino) IN
             [open |-> TRUE, k |-> inf.k, sz |-> inf.sz, nl |-> inf.nl, m |-> inf.m,
              off |-> IF st.h[i].dir THEN -1 ELSE st.h[i].off]]

\* inode numbers are history dependent: identify an inode by its names, or by its content when unnamed
HView(st) ==
    LET ap == AllPaths(st) IN
    [i \in DOMAIN st.h |->
        IF ~st.h[i].open THEN <<"closed">>
        ELSE <<[st.h[i] EXCEPT !.ino = 0], {q[1] : q \in {x \in ap : x[2] = st.h[i].ino}},
               [st.ino[st.h[i].ino] EXCEPT !.ent = DOMAIN @]>>]

=============================================================================
