------------------------------- MODULE IdmTrace -------------------------------
(***************************************************************************)
(* Trace validation for the identity manager: each line is a call executed *)
(* on a real MemIdm with its result and the complete lookup table.         *)
(* Registers: 1 = deviations used, 2 = unexplained <<trace, line>>.        *)
(***************************************************************************)
EXTENDS MemIdm, KfOpen, Json, IOUtils

Trace == ndJsonDeserialize(IOEnv.VERIF_TRACE)
VARIABLES l, s, bad
tvars == <<l, s, bad>>

RangeOf(q) == {q[i] : i \in DOMAIN q}
TabOf(ev) == [groups |-> RangeOf(ev.tab.groups), gids |-> RangeOf(ev.tab.gids),
              users |-> RangeOf(ev.tab.users), uids |-> RangeOf(ev.tab.uids)]

Rules == {"uid0"} \cup (IF "KF20" \in OpenKF THEN {"gid0"} ELSE {})

TraceInit == l = 1 /\ s = IdmInit /\ bad = FALSE /\ TLCSet(1, {}) /\ TLCSet(2, {}) /\ TLCSet(3, 0)

TraceStep ==
    /\ l <= Len(Trace)
    /\ l' = l + 1
    /\ TLCSet(3, l)
    /\ LET ev == Trace[l]
           pre == IF ev.i = 1 THEN IdmInit ELSE s
           o == IdmApply(pre, ev.call)
           ok(rule) == ResR(rule, o.res) = ev.res /\ TablesR(rule, o.s) = TabOf(ev) /\ IdmInv(o.s) IN
       IF ev.i # 1 /\ bad THEN UNCHANGED <<s, bad>>
       ELSE IF ok("uid0") THEN s' = o.s /\ bad' = FALSE
       ELSE IF \E r \in Rules : ok(r) THEN s' = o.s /\ bad' = FALSE /\ TLCSet(1, TLCGet(1) \cup {"KF20"})
       ELSE s' = pre /\ bad' = TRUE /\ TLCSet(2, TLCGet(2) \cup {<<ev.tr, ev.i>>})

TraceSpec == TraceInit /\ [][TraceStep]_tvars

TraceDone ==
    /\ PrintT(<<"KFUSED", TLCGet(1)>>)
    /\ PrintT(<<"UNEXPLAINED", TLCGet(2)>>)
    /\ PrintT(<<"JUDGED", Len(Trace), "SKIPPED", 0, "HIGHWATER", TLCGet(3), "LEN", Len(Trace)>>)
    /\ TLCGet(3) = Len(Trace)
=============================================================================
