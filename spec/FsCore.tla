------------------------------- MODULE FsCore -------------------------------
(***************************************************************************)
(* Abstract file system: the reference semantics ("Go's os package on      *)
(* Linux") of every avfs.VFS / avfs.File call, written as PURE operators   *)
(*     Op(st, c) = [res |-> result record, st |-> successor state]         *)
(* so that the same definitions serve the generating state machine         *)
(* (FsSpec), trace validation (FsTrace), the linearizability judge (Lin)   *)
(* and the wrapper specifications.                                         *)
(*                                                                         *)
(* State st:                                                               *)
(*   ino   : inode table  id -> [k, ent, data, tgt, mode, uid, gid]        *)
(*           k \in {"dir","file","link"}; ent : name -> id (directories);  *)
(*           data : Seq(byte) (files); tgt : path record (symlinks)        *)
(*   next  : next free inode id (ids are never reused)                     *)
(*   cwd   : stack of directory ids from the root to the working directory *)
(*   cwdn  : the names along that stack                                    *)
(*   uid, gid, grps, umask : credentials of the calling view               *)
(*   h     : sequence of open-handle records                               *)
(*   tmpn  : number of temporary names handed out so far                   *)
(* The link count of an inode is DERIVED (number of directory entries      *)
(* naming it), which makes "exact link counts" true by construction in the *)
(* reference and a checked fact about the implementation.                  *)
(***************************************************************************)
EXTENDS Integers, Sequences, FiniteSets, TLC

Root == 1
EmptyFn == [x \in {} |-> 0]
NoPath == [abs |-> FALSE, parts |-> <<>>]
NoInfo == [k |-> "none", m |-> 0, u |-> 0, g |-> 0, sz |-> 0, nl |-> 0]
R0 == [err |-> "ok", n |-> 0, data |-> <<>>, names |-> <<>>, path |-> NoPath, info |-> NoInfo]

KernelLinkBudget == 40      \* MAXSYMLINKS
EvalLinkBudget   == 255     \* path/filepath.EvalSymlinks' own budget

Ret(r, st)  == [res |-> r, st |-> st]
Fail(e, st) == [res |-> [R0 EXCEPT !.err = e], st |-> st]
Ok(st)      == [res |-> R0, st |-> st]

Last(s)  == s[Len(s)]
Front(s) == SubSeq(s, 1, Len(s) - 1)
Range(s) == {s[i] : i \in DOMAIN s}
Min(a, b) == IF a < b THEN a ELSE b
Max(a, b) == IF a > b THEN a ELSE b

(***************************************************************************)
(* Mode arithmetic on unix permission words (12 bits).                     *)
(***************************************************************************)
Bit(x, k) == (x \div (2 ^ k)) % 2
RECURSIVE AndNotR(_, _, _)
AndNotR(a, b, k) ==
    IF k > 11 THEN 0
    ELSE (IF Bit(a, k) = 1 /\ Bit(b, k) = 0 THEN 2 ^ k ELSE 0) + AndNotR(a, b, k + 1)
AndNot(a, b) == AndNotR(a, b, 0)          \* a &^ b
And(a, b) == AndNot(a, AndNot(4095, b))   \* a & b
HasBit(m, b) == And(m, b) # 0

SETUID == 2048
SETGID == 1024
STICKY == 512

(***************************************************************************)
(* Inode helpers.                                                          *)
(***************************************************************************)
MkNode(k, mode, uid, gid) ==
    [k |-> k, ent |-> EmptyFn, data |-> <<>>, tgt |-> NoPath, mode |-> mode, uid |-> uid, gid |-> gid]

IsDir(st, id)  == id # 0 /\ st.ino[id].k = "dir"
IsFile(st, id) == id # 0 /\ st.ino[id].k = "file"
IsLink(st, id) == id # 0 /\ st.ino[id].k = "link"

AddEntry(st, d, name, id) == [st EXCEPT !.ino[d].ent = (name :> id) @@ @]
DelEntry(st, d, name) == [st EXCEPT !.ino[d].ent = [x \in (DOMAIN @) \ {name} |-> @[x]]]
NewIno(st, node) == [st EXCEPT !.ino = @ @@ (st.next :> node), !.next = @ + 1]

DirIds(st) == {i \in DOMAIN st.ino : st.ino[i].k = "dir"}

\* number of directory entries naming inode id
Nlink(st, id) ==
    Cardinality({dn \in UNION {{<<d, n>> : n \in DOMAIN st.ino[d].ent} : d \in DirIds(st)} :
                    st.ino[dn[1]].ent[dn[2]] = id})

\* inodes reachable from the root
RECURSIVE ReachR(_, _, _)
ReachR(st, frontier, seen) ==
    IF frontier = {} THEN seen
    ELSE LET nxt == UNION {Range(st.ino[d].ent) : d \in {f \in frontier : st.ino[f].k = "dir"}} IN
         ReachR(st, nxt \ seen, seen \cup nxt)
Reachable(st) == ReachR(st, {Root}, {Root})

OpenInos(st) == {st.h[i].ino : i \in {j \in DOMAIN st.h : st.h[j].open}}

\* garbage collection: an inode without name and without open handle disappears;
\* a directory that lost its name is empty (rmdir needs it empty, removeall empties it).
Gc(st) ==
    LET keep == Reachable(st) \cup {i \in OpenInos(st) \cup Range(st.cwd) : i \in DOMAIN st.ino}
        live == Reachable(st) IN
    [st EXCEPT !.ino = [i \in keep |->
        IF i \notin live /\ st.ino[i].k = "dir" THEN [st.ino[i] EXCEPT !.ent = EmptyFn] ELSE st.ino[i]]]

(***************************************************************************)
(* Discretionary access control.                                           *)
(***************************************************************************)
IsAdmin(st) == st.uid = 0
InGroup(st, g) == g = st.gid \/ g \in st.grps
ClassShift(st, n) == IF n.uid = st.uid THEN 64 ELSE IF InGroup(st, n.gid) THEN 8 ELSE 1
\* bit: 4 = read, 2 = write, 1 = execute/search.  The class is chosen once and exclusively.
May(st, id, bit) == IsAdmin(st) \/ ((st.ino[id].mode \div ClassShift(st, st.ino[id])) \div bit) % 2 = 1
MayWX(st, id) == May(st, id, 2) /\ May(st, id, 1)
IsOwner(st, id) == IsAdmin(st) \/ st.ino[id].uid = st.uid
\* a caller without CAP_FSETID who changes the content of a regular file (write, truncate, O_TRUNC) takes its
\* set-uid bit away, and its set-gid bit when the group may execute the file or when the caller is neither in the
\* file's group nor privileged (file_remove_privs / ATTR_KILL_S*ID, setattr_should_drop_sgid)
KilledMode(st, n) ==
    AndNot(n.mode, 2048 + (IF And(n.mode, 1024) # 0 /\ (And(n.mode, 8) # 0 \/ (~IsAdmin(st) /\ ~InGroup(st, n.gid))) THEN 1024 ELSE 0))
KillPriv(st, id) ==
    IF IsAdmin(st) \/ st.ino[id].k # "file" THEN st ELSE [st EXCEPT !.ino[id].mode = KilledMode(st, st.ino[id])]

\* sticky directory: only the owner of the entry or of the directory may remove/rename it
StickyDenies(st, dir, victim) ==
    /\ HasBit(st.ino[dir].mode, STICKY)
    /\ ~IsAdmin(st)
    /\ st.ino[victim].uid # st.uid
    /\ st.ino[dir].uid # st.uid

(***************************************************************************)
(* Path resolution.  A path is [abs, parts]; parts may contain "." and     *)
(* ".." (symlink targets, relative paths).  Result:                        *)
(*   err  "ok" or an errno                                                 *)
(*   par  stack of directory ids down to the directory holding the final   *)
(*        component; parn the names along it                               *)
(*   id   inode of the final component, 0 when it does not exist           *)
(*   name name of the final component in Last(par); "" when the final      *)
(*        object was reached as root, "." or ".."                          *)
(* follow: follow a symbolic link in final position.                       *)
(***************************************************************************)
WErr(e) == [err |-> e, par |-> <<>>, parn |-> <<>>, id |-> 0, name |-> "", nm |-> <<>>]
WOk(par, parn, id, name) == [err |-> "ok", par |-> par, parn |-> parn, id |-> id, name |-> name, nm |-> Append(parn, name)]

\* seen: the <<directory, remaining path>> configurations at which a link was already followed. Resolution is
\* deterministic, so meeting one again means the walk would go round until the budget is used up: the
\* outcome is ELOOP whatever the budget (this only shortens the evaluation, not the meaning).
RECURSIVE WalkS(_, _, _, _, _, _, _)
WalkS(st, stk, nstk, parts, follow, bud, seen) ==
    IF parts = <<>>
    THEN [err |-> "ok", par |-> Front(stk), parn |-> IF nstk = <<>> THEN <<>> ELSE Front(nstk),
          id |-> Last(stk), name |-> "", nm |-> nstk]
    ELSE
    LET c == Head(parts)
        rest == Tail(parts)
        top == Last(stk)
        d == st.ino[top] IN
    IF ~May(st, top, 1) THEN WErr("EACCES")
    ELSE IF c = "." \/ c = "" THEN WalkS(st, stk, nstk, rest, follow, bud, seen)
    ELSE IF c = ".." THEN
        IF Len(stk) > 1 THEN WalkS(st, Front(stk), Front(nstk), rest, follow, bud, seen)
        ELSE WalkS(st, stk, nstk, rest, follow, bud, seen)
    ELSE IF c \notin DOMAIN d.ent THEN
        IF rest = <<>> THEN WOk(stk, nstk, 0, c)
        ELSE WErr("ENOENT")
    ELSE
    LET id == d.ent[c]
        n == st.ino[id] IN
    IF n.k = "dir" THEN
        IF rest = <<>> THEN WOk(stk, nstk, id, c)
        ELSE WalkS(st, Append(stk, id), Append(nstk, c), rest, follow, bud, seen)
    ELSE IF n.k = "file" THEN
        IF rest = <<>> THEN WOk(stk, nstk, id, c)
        ELSE WErr("ENOTDIR")
    ELSE \* symbolic link
        IF rest = <<>> /\ ~follow THEN WOk(stk, nstk, id, c)
        ELSE IF bud = 0 \/ <<top, parts>> \in seen THEN WErr("ELOOP")
        ELSE IF n.tgt.parts = <<>> /\ ~n.tgt.abs THEN WErr("ENOENT")
        ELSE WalkS(st, IF n.tgt.abs THEN <<Root>> ELSE stk, IF n.tgt.abs THEN <<>> ELSE nstk,
                   n.tgt.parts \o rest, follow, bud - 1, seen \cup {<<top, parts>>})

Walk(st, stk, nstk, parts, follow, bud) == WalkS(st, stk, nstk, parts, follow, bud, {})

IsEmptyPath(p) == ~p.abs /\ p.parts = <<>>

(***************************************************************************)
(* Lexical cleaning (path/filepath.Clean on component lists).  avfs cleans *)
(* every path before it looks at the tree, and the properties DEFINE the   *)
(* behaviour of an unclean path as that of its Clean() form - which is not *)
(* the kernel's: "/w/zz/../a" with zz missing is ENOENT for the kernel.    *)
(***************************************************************************)
RECURSIVE LexCleanAcc(_, _, _)
LexCleanAcc(abs, acc, parts) ==
    IF parts = <<>> THEN acc
    ELSE LET c == Head(parts) IN
         IF c = "." \/ c = "" THEN LexCleanAcc(abs, acc, Tail(parts))
         ELSE IF c = ".." THEN
             IF acc # <<>> /\ Last(acc) # ".." THEN LexCleanAcc(abs, Front(acc), Tail(parts))
             ELSE IF abs THEN LexCleanAcc(abs, acc, Tail(parts))
             ELSE LexCleanAcc(abs, Append(acc, ".."), Tail(parts))
         ELSE LexCleanAcc(abs, Append(acc, c), Tail(parts))

CleanPath(p) ==
    IF IsEmptyPath(p) THEN p
    ELSE LET q == LexCleanAcc(p.abs, <<>>, p.parts) IN
         [abs |-> p.abs, parts |-> IF ~p.abs /\ q = <<>> THEN <<".">> ELSE q]

\* the call as an implementation that cleans its operands sees it (a symlink target is stored cleaned too)
\* (a Glob pattern is not a path: its elements are matched, "." and ".." and a trailing separator included)
CleanCall(c) == IF c.op = "glob" THEN c ELSE [c EXCEPT !.p = CleanPath(@), !.q = CleanPath(@)]

Resolve(st, p, follow, bud) ==
    IF IsEmptyPath(p) THEN WErr("ENOENT")
    ELSE IF p.abs THEN Walk(st, <<Root>>, <<>>, p.parts, follow, bud)
    ELSE Walk(st, st.cwd, st.cwdn, p.parts, follow, bud)

\* the budget of symbolic links a path resolution may follow is carried in the state (st.lb for the
\* kernel-backed calls, st.elb for EvalSymlinks) so that the deviation catalogue can vary it
Res(st, p, follow) == Resolve(st, p, follow, st.lb)

\* the full stack of a resolved directory (itself included)
StackOf(r) == Append(r.par, r.id)
NamesOf(r) == r.nm

\* kind of the last component as the kernel classifies it
LastKind(p) ==
    IF p.parts = <<>> THEN "root"
    ELSE IF Last(p.parts) = "." THEN "dot"
    ELSE IF Last(p.parts) = ".." THEN "dotdot"
    ELSE "norm"

(***************************************************************************)
(* Creation.                                                               *)
(***************************************************************************)
NewGid(st, dir) == IF HasBit(st.ino[dir].mode, SETGID) THEN st.ino[dir].gid ELSE st.gid

CreateFileIn(st, dir, name, perm) ==
    LET node == MkNode("file", AndNot(And(perm, 4095), st.umask), st.uid, NewGid(st, dir))
        s1 == NewIno(st, node) IN
    AddEntry(s1, dir, name, st.next)

CreateDirIn(st, dir, name, perm) ==
    LET m0 == AndNot(And(perm, 511 + STICKY), st.umask)
        m == IF HasBit(st.ino[dir].mode, SETGID) THEN m0 + SETGID ELSE m0
        node == MkNode("dir", m, st.uid, NewGid(st, dir))
        s1 == NewIno(st, node) IN
    AddEntry(s1, dir, name, st.next)

CreateLinkIn(st, dir, name, tgt) ==
    LET node == [MkNode("link", 511, st.uid, NewGid(st, dir)) EXCEPT !.tgt = tgt]
        s1 == NewIno(st, node) IN
    AddEntry(s1, dir, name, st.next)

(***************************************************************************)
(* Namespace calls.                                                        *)
(***************************************************************************)
\* mkdir(2) never follows a link in final position; followFinal exists for the deviation catalogue
MkdirF(st, c, followFinal, bud) ==
    LET r == Resolve(st, c.p, followFinal, bud) IN
    IF r.err # "ok" THEN Fail(r.err, st)
    ELSE IF r.id # 0 THEN Fail("EEXIST", st)
    ELSE IF ~MayWX(st, Last(r.par)) THEN Fail("EACCES", st)
    ELSE Ok(CreateDirIn(st, Last(r.par), r.name, c.perm))

Mkdir(st, c) == MkdirF(st, c, FALSE, st.lb)

\* os.MkdirAll: Stat; parents first; Mkdir; tolerate "already a directory".
RECURSIVE MkdirAllR(_, _, _, _)
MkdirAllR(st, abs, parts, perm) ==
    LET p == [abs |-> abs, parts |-> parts]
        r == Res(st, p, TRUE) IN
    IF r.err = "ok" /\ r.id # 0 THEN (IF IsDir(st, r.id) THEN Ok(st) ELSE Fail("ENOTDIR", st))
    ELSE
    LET up == IF Len(parts) > 1 THEN MkdirAllR(st, abs, Front(parts), perm) ELSE Ok(st) IN
    IF up.res.err # "ok" THEN up
    ELSE
    LET mk == Mkdir(up.st, [p |-> p, perm |-> perm]) IN
    IF mk.res.err = "ok" THEN mk
    ELSE LET l == Res(up.st, p, FALSE) IN
         IF l.err = "ok" /\ IsDir(up.st, l.id) THEN Ok(up.st) ELSE Fail(mk.res.err, up.st)

MkdirAll(st, c) == MkdirAllR(st, c.p.abs, c.p.parts, c.perm)

HasFlag(c, f) == f \in Range(c.flag)
WantsWrite(c) == HasFlag(c, "WRONLY") \/ HasFlag(c, "RDWR")
WantsRead(c)  == ~HasFlag(c, "WRONLY")

Handle(id, c, isdir) ==
    [ino |-> id, off |-> 0, rd |-> WantsRead(c), wr |-> WantsWrite(c), app |-> HasFlag(c, "APPEND"),
     open |-> TRUE, dir |-> isdir, dstart |-> FALSE, dleft |-> {}, name |-> c.p]

\* open(2) as issued by os.OpenFile; returns [res, st, id] with id the opened inode (0 on failure)
OpenCoreF(st, c, followExcl, bud) ==
    LET excl == HasFlag(c, "CREATE") /\ HasFlag(c, "EXCL")
        r == Resolve(st, c.p, ~excl \/ followExcl, bud)
        F(e) == [res |-> [R0 EXCEPT !.err = e], st |-> st, id |-> 0] IN
    IF r.err # "ok" THEN F(r.err)
    ELSE IF r.id = 0 THEN
        IF ~HasFlag(c, "CREATE") THEN F("ENOENT")
        ELSE IF ~MayWX(st, Last(r.par)) THEN F("EACCES")
        ELSE [res |-> R0, st |-> CreateFileIn(st, Last(r.par), r.name, c.perm), id |-> st.next]
    ELSE IF excl THEN F("EEXIST")
    ELSE IF IsDir(st, r.id) THEN
        IF WantsWrite(c) \/ HasFlag(c, "CREATE") \/ HasFlag(c, "TRUNC") THEN F("EISDIR")
        ELSE IF ~May(st, r.id, 4) THEN F("EACCES")
        ELSE [res |-> R0, st |-> st, id |-> r.id]
    ELSE IF IsLink(st, r.id) THEN F("ELOOP")
    ELSE IF WantsRead(c) /\ ~May(st, r.id, 4) THEN F("EACCES")
    ELSE IF (WantsWrite(c) \/ HasFlag(c, "TRUNC")) /\ ~May(st, r.id, 2) THEN F("EACCES")
    ELSE [res |-> R0,
          st |-> IF HasFlag(c, "TRUNC") THEN KillPriv([st EXCEPT !.ino[r.id].data = <<>>], r.id) ELSE st,
          id |-> r.id]

OpenCore(st, c) == OpenCoreF(st, c, FALSE, st.lb)

OpenClose(st, c) == LET o == OpenCore(st, c) IN [res |-> o.res, st |-> o.st]

Open(st, c) ==
    LET o == OpenCore(st, c) IN
    IF o.id = 0 THEN [res |-> o.res, st |-> o.st]
    ELSE Ret([R0 EXCEPT !.n = Len(st.h) + 1],
             [o.st EXCEPT !.h = Append(@, Handle(o.id, c, IsDir(o.st, o.id)))])

CreateFlags == <<"RDWR", "CREATE", "TRUNC">>
Create(st, c) == OpenClose(st, [c EXCEPT !.flag = CreateFlags, !.perm = 438])

WriteFile(st, c) ==
    LET o == OpenCore(st, [c EXCEPT !.flag = <<"WRONLY", "CREATE", "TRUNC">>]) IN
    IF o.id = 0 THEN [res |-> o.res, st |-> o.st]
    ELSE Ok(IF c.data = <<>> THEN [o.st EXCEPT !.ino[o.id].data = c.data] ELSE KillPriv([o.st EXCEPT !.ino[o.id].data = c.data], o.id))

TmpName(k) == "~" \o ToString(k)

\* os.CreateTemp / os.MkdirTemp: a fresh name in dir; the harness maps the random name to "~k"
CreateTemp(st, c) ==
    LET nm == TmpName(st.tmpn + 1)
        p == [abs |-> c.p.abs, parts |-> Append(c.p.parts, nm)]
        o == OpenCore(st, [c EXCEPT !.p = p, !.flag = <<"RDWR", "CREATE", "EXCL">>, !.perm = 384]) IN
    IF o.id = 0 THEN [res |-> o.res, st |-> o.st]
    ELSE Ret([R0 EXCEPT !.n = 1, !.names = <<nm>>], [o.st EXCEPT !.tmpn = @ + 1])

MkdirTemp(st, c) ==
    LET nm == TmpName(st.tmpn + 1)
        p == [abs |-> c.p.abs, parts |-> Append(c.p.parts, nm)]
        o == Mkdir(st, [p |-> p, perm |-> 448]) IN
    IF o.res.err # "ok" THEN o
    ELSE Ret([R0 EXCEPT !.n = 1, !.names = <<nm>>], [o.st EXCEPT !.tmpn = @ + 1])

\* os.Remove: unlink, then rmdir; the rmdir error wins unless it is ENOTDIR
Remove(st, c) ==
    LET r == Res(st, c.p, FALSE)
        lk == LastKind(c.p) IN
    IF r.err # "ok" THEN Fail(r.err, st)
    ELSE IF r.id = 0 THEN Fail("ENOENT", st)
    ELSE IF lk = "root" THEN Fail("EBUSY", st)
    ELSE IF lk = "dot" THEN Fail("EINVAL", st)
    ELSE IF lk = "dotdot" THEN Fail("ENOTEMPTY", st)
    ELSE
    LET dir == Last(r.par) IN
    IF ~MayWX(st, dir) THEN Fail("EACCES", st)
    ELSE IF StickyDenies(st, dir, r.id) THEN Fail("EPERM", st)
    ELSE IF IsDir(st, r.id) /\ DOMAIN st.ino[r.id].ent # {} THEN Fail("ENOTEMPTY", st)
    ELSE Ok(Gc(DelEntry(st, dir, r.name)))

\* all inodes in the subtree of directory id (itself included)
RECURSIVE SubtreeR(_, _, _)
SubtreeR(st, frontier, seen) ==
    IF frontier = {} THEN seen
    ELSE LET nxt == UNION {Range(st.ino[d].ent) : d \in {f \in frontier : st.ino[f].k = "dir"}} IN
         SubtreeR(st, nxt \ seen, seen \cup nxt)
Subtree(st, id) == SubtreeR(st, {id}, {id})

\* os.RemoveAll, step by step as package os does it (removeall_at.go): unlinkat first; when that is refused with
\* EISDIR, EPERM or EACCES the entry may be a directory that must be emptied: it is opened for reading, every child
\* is removed the same way, then rmdir is tried; the first error met below wins over the error of the final rmdir,
\* and a successful rmdir wins over everything.  For the administrator the subtree simply disappears.
UnlinkErr(st, dir, id) ==      \* unlinkat(dir, name, 0)
    IF ~MayWX(st, dir) THEN "EACCES" ELSE IF StickyDenies(st, dir, id) THEN "EPERM" ELSE IF IsDir(st, id) THEN "EISDIR" ELSE "ok"
RmdirErr(st, dir, id) ==       \* unlinkat(dir, name, AT_REMOVEDIR) of a directory
    IF ~MayWX(st, dir) THEN "EACCES" ELSE IF StickyDenies(st, dir, id) THEN "EPERM"
    ELSE IF DOMAIN st.ino[id].ent # {} THEN "ENOTEMPTY" ELSE "ok"
RECURSIVE RemoveTree(_, _, _, _)
\* removes entry name of directory dir as far as permissions allow; returns [err, st, errs]: the listing order of a
\* directory is not specified, so when several children fail any of their errors can be the first: errs is the
\* set of errors the call may report ({} = success), err one of them ("ok" when none)
RemoveTree(st, dir, name, fuel) ==
    LET id == st.ino[dir].ent[name]
        u == UnlinkErr(st, dir, id)
        Res1(e, s) == [err |-> e, st |-> s, errs |-> IF e = "ok" THEN {} ELSE {e}] IN
    IF u = "ok" THEN Res1("ok", DelEntry(st, dir, name))
    ELSE IF ~IsDir(st, id) \/ fuel = 0 THEN Res1(u, st)
    ELSE
        LET names == DOMAIN st.ino[id].ent
            RECURSIVE Each(_, _, _)
            Each(s, todo, acc) ==
                IF todo = {} THEN [st |-> s, errs |-> acc]
                ELSE LET n == CHOOSE x \in todo : TRUE
                         o == RemoveTree(s, id, n, fuel - 1) IN
                     Each(o.st, todo \ {n}, acc \cup o.errs)
            \* openat(dir, name, O_RDONLY): search permission on dir, read permission on the directory itself
            inner == IF ~May(st, dir, 1) \/ ~May(st, id, 4) THEN [st |-> st, errs |-> {"EACCES"}]
                     ELSE Each(st, names, {})
            last == RmdirErr(inner.st, dir, id) IN
        IF last = "ok" THEN Res1("ok", DelEntry(inner.st, dir, name))
        ELSE IF inner.errs # {} THEN [err |-> CHOOSE e \in inner.errs : TRUE, st |-> inner.st, errs |-> inner.errs]
        ELSE Res1(last, inner.st)

EndsWithDot(p) == p.parts # <<>> /\ Last(p.parts) = "."

\* [res, st, errs]: errs = every error the call may report (see RemoveTree); {} when it succeeds
RemoveAllX(st, c) ==
    LET One(o) == [res |-> o.res, st |-> o.st, errs |-> IF o.res.err = "ok" THEN {} ELSE {o.res.err}] IN
    IF IsEmptyPath(c.p) THEN One(Ok(st))
    ELSE IF EndsWithDot(c.p) THEN One(Fail("EINVAL", st))
    ELSE
    LET r == Res(st, c.p, FALSE)
        lk == LastKind(c.p) IN
    IF r.err = "ENOENT" THEN One(Ok(st))
    ELSE IF r.err # "ok" THEN
        \* Remove(path) failed for another reason: package os opens the parent directory of the path for reading
        \* (whatever it is) before trying again through it; a missing parent means there is nothing to remove
        LET pp == [abs |-> c.p.abs, parts |-> IF c.p.parts = <<>> THEN <<>> ELSE Front(c.p.parts)]
            rp == Res(st, pp, TRUE) IN
        IF c.p.parts = <<>> THEN One(Fail(r.err, st))
        ELSE IF rp.err = "ENOENT" \/ (rp.err = "ok" /\ rp.id = 0) THEN One(Ok(st))
        ELSE IF rp.err # "ok" THEN One(Fail(rp.err, st))
        ELSE IF ~May(st, rp.id, 4) THEN One(Fail("EACCES", st))
        ELSE One(Fail(r.err, st))
    ELSE IF r.id = 0 THEN One(Ok(st))
    ELSE IF lk = "root" THEN
        \* everything below the root goes as far as the caller may, then the root itself refuses; an error met
        \* below wins over the final EBUSY
        LET RECURSIVE Each(_, _, _)
            Each(s, todo, acc) == IF todo = {} THEN [st |-> s, errs |-> acc]
                                  ELSE LET n == CHOOSE x \in todo : TRUE
                                           o == RemoveTree(s, Root, n, 8) IN
                                       Each(o.st, todo \ {n}, acc \cup o.errs)
            inner == IF ~May(st, Root, 4) THEN [st |-> st, errs |-> {"EACCES"}] ELSE Each(st, DOMAIN st.ino[Root].ent, {})
            es == IF inner.errs = {} THEN {"EBUSY"} ELSE inner.errs IN
        [res |-> [R0 EXCEPT !.err = CHOOSE e \in es : TRUE], st |-> Gc(inner.st), errs |-> es]
    ELSE IF lk = "dotdot" THEN One(Fail("ENOTEMPTY", st))
    ELSE LET par == Last(r.par)
             \* Remove(path) first: unlink, or rmdir for a directory
             first == IF IsDir(st, r.id) THEN RmdirErr(st, par, r.id) ELSE UnlinkErr(st, par, r.id) IN
         IF first = "ok" THEN One(Ok(Gc(DelEntry(st, par, r.name))))
         \* then the parent directory is opened for reading and the entry removed through it
         ELSE IF ~May(st, par, 4) THEN One(Fail("EACCES", st))
         ELSE LET o == RemoveTree(st, par, r.name, 8) IN
              IF o.errs = {} THEN One(Ok(Gc(o.st)))
              ELSE [res |-> [R0 EXCEPT !.err = o.err], st |-> Gc(o.st), errs |-> o.errs]
RemoveAll(st, c) == LET x == RemoveAllX(st, c) IN [res |-> x.res, st |-> x.st]

SamePath(p, q) == p = q

\* os.Rename = Go's pre-check + renameat(2)
Rename(st, c) ==
    LET o == c.p
        n == c.q
        rn0 == Res(st, n, FALSE)
        ro0 == Res(st, o, FALSE) IN
    \* Go: an existing directory as destination is refused up front
    IF rn0.err = "ok" /\ IsDir(st, rn0.id) /\ (ro0.err # "ok" \/ ro0.id = 0)
        THEN Fail(IF ro0.err # "ok" THEN ro0.err ELSE "ENOENT", st)
    ELSE IF rn0.err = "ok" /\ IsDir(st, rn0.id) /\ (SamePath(o, n) \/ ro0.id # rn0.id)
        THEN Fail("EEXIST", st)
    \* kernel: parents first (old, then new)
    ELSE IF ro0.err # "ok" THEN Fail(ro0.err, st)
    ELSE IF rn0.err # "ok" THEN Fail(rn0.err, st)
    ELSE IF LastKind(o) # "norm" THEN Fail("EBUSY", st)
    ELSE IF LastKind(n) # "norm" THEN Fail("EBUSY", st)
    ELSE IF ro0.id = 0 THEN Fail("ENOENT", st)
    ELSE
    LET od == Last(ro0.par)
        nd == Last(rn0.par)
        src == ro0.id
        dst == rn0.id IN
    IF src \in Range(rn0.par) THEN Fail("EINVAL", st)
    ELSE IF dst # 0 /\ dst \in Range(ro0.par) THEN Fail("ENOTEMPTY", st)
    ELSE IF src = dst THEN Ok(st)
    ELSE IF ~MayWX(st, od) THEN Fail("EACCES", st)
    ELSE IF StickyDenies(st, od, src) THEN Fail("EPERM", st)
    ELSE IF dst = 0 /\ ~MayWX(st, nd) THEN Fail("EACCES", st)
    ELSE IF dst # 0 /\ ~MayWX(st, nd) THEN Fail("EACCES", st)
    ELSE IF dst # 0 /\ StickyDenies(st, nd, dst) THEN Fail("EPERM", st)
    ELSE IF dst # 0 /\ IsDir(st, src) /\ ~IsDir(st, dst) THEN Fail("ENOTDIR", st)
    ELSE IF dst # 0 /\ ~IsDir(st, src) /\ IsDir(st, dst) THEN Fail("EISDIR", st)
    ELSE IF IsDir(st, src) /\ od # nd /\ ~May(st, src, 2) THEN Fail("EACCES", st)
    ELSE IF dst # 0 /\ IsDir(st, dst) /\ DOMAIN st.ino[dst].ent # {} THEN Fail("ENOTEMPTY", st)
    ELSE Ok(Gc(AddEntry(DelEntry(st, od, ro0.name), nd, rn0.name, src)))

\* linkat(2) without AT_SYMLINK_FOLLOW
HardlinkAllowed(st, id) ==
    \/ IsOwner(st, id)
    \/ /\ IsFile(st, id)
       /\ ~HasBit(st.ino[id].mode, SETUID)
       /\ ~(HasBit(st.ino[id].mode, SETGID) /\ HasBit(st.ino[id].mode, 8))
       /\ May(st, id, 4) /\ May(st, id, 2)

Link(st, c) ==
    LET ro == Res(st, c.p, FALSE)
        rn == Res(st, c.q, FALSE) IN
    IF ro.err # "ok" THEN Fail(ro.err, st)
    ELSE IF ro.id = 0 THEN Fail("ENOENT", st)
    ELSE IF rn.err # "ok" THEN Fail(rn.err, st)
    ELSE IF rn.id # 0 \/ LastKind(c.q) # "norm" THEN Fail("EEXIST", st)
    \* fs.protected_hardlinks = 1 (the kernel default): who does not own the source may only link a regular file
    \* without set-uid / set-gid+group-exec bits that he may both read and write (may_linkat, before the directory check)
    ELSE IF ~HardlinkAllowed(st, ro.id) THEN Fail("EPERM", st)
    ELSE IF ~MayWX(st, Last(rn.par)) THEN Fail("EACCES", st)
    ELSE IF IsDir(st, ro.id) THEN Fail("EPERM", st)
    ELSE Ok(AddEntry(st, Last(rn.par), rn.name, ro.id))

\* symlink(2): c.p is the new name, c.q the target
Symlink(st, c) ==
    LET rn == Res(st, c.p, FALSE) IN
    IF IsEmptyPath(c.q) THEN Fail("ENOENT", st)
    ELSE IF rn.err # "ok" THEN Fail(rn.err, st)
    ELSE IF rn.id # 0 \/ LastKind(c.p) # "norm" THEN Fail("EEXIST", st)
    ELSE IF ~MayWX(st, Last(rn.par)) THEN Fail("EACCES", st)
    ELSE Ok(CreateLinkIn(st, Last(rn.par), rn.name, c.q))

Resize(data, size) ==
    IF size <= Len(data) THEN SubSeq(data, 1, size)
    ELSE data \o [i \in 1..(size - Len(data)) |-> 0]

Truncate(st, c) ==
    IF c.n < 0 THEN Fail("EINVAL", st)
    ELSE
    LET r == Res(st, c.p, TRUE) IN
    IF r.err # "ok" THEN Fail(r.err, st)
    ELSE IF r.id = 0 THEN Fail("ENOENT", st)
    ELSE IF IsDir(st, r.id) THEN Fail("EISDIR", st)
    ELSE IF ~May(st, r.id, 2) THEN Fail("EACCES", st)
    ELSE Ok(KillPriv([st EXCEPT !.ino[r.id].data = Resize(@, c.n)], r.id))

Chmod(st, c) ==
    LET r == Res(st, c.p, TRUE) IN
    IF r.err # "ok" THEN Fail(r.err, st)
    ELSE IF r.id = 0 THEN Fail("ENOENT", st)
    ELSE IF ~IsOwner(st, r.id) THEN Fail("EPERM", st)
    ELSE
    LET m0 == And(c.perm, 4095)
        \* an owner outside the file's group silently loses the set-gid bit
        m == IF ~IsAdmin(st) /\ ~InGroup(st, st.ino[r.id].gid) THEN AndNot(m0, SETGID) ELSE m0 IN
    Ok([st EXCEPT !.ino[r.id].mode = m])

\* chown(2) rules; -1 leaves a value unchanged
ChownCore(st, c, follow) ==
    LET r == Res(st, c.p, follow) IN
    IF r.err # "ok" THEN Fail(r.err, st)
    ELSE IF r.id = 0 THEN Fail("ENOENT", st)
    ELSE
    LET nd == st.ino[r.id]
        nu == IF c.uid = -1 THEN nd.uid ELSE c.uid
        ng == IF c.gid = -1 THEN nd.gid ELSE c.gid
        allowed == \/ IsAdmin(st)
                   \/ /\ nd.uid = st.uid
                      /\ (c.uid = -1 \/ c.uid = nd.uid)
                      /\ (c.gid = -1 \/ c.gid = nd.gid \/ InGroup(st, c.gid))
                   \* nothing to change: allowed to anybody - unless there are set-id bits to take away, which needs ownership
                   \/ (c.uid = -1 /\ c.gid = -1 /\ (nd.k = "dir" \/ KilledMode(st, nd) = nd.mode))
        \* set-uid/set-gid bits of non-directories are dropped by every chown, even chown(-1, -1)
        m == IF nd.k = "dir" THEN nd.mode ELSE KilledMode(st, nd) IN
    IF ~allowed THEN Fail("EPERM", st)
    ELSE Ok([st EXCEPT !.ino[r.id].uid = nu, !.ino[r.id].gid = ng, !.ino[r.id].mode = m])

Chown(st, c)  == ChownCore(st, c, TRUE)
Lchown(st, c) == ChownCore(st, c, FALSE)

Chtimes(st, c) ==
    LET r == Res(st, c.p, TRUE) IN
    IF r.err # "ok" THEN Fail(r.err, st)
    ELSE IF r.id = 0 THEN Fail("ENOENT", st)
    ELSE IF ~IsOwner(st, r.id) THEN Fail("EPERM", st)
    ELSE Ok(st)

Chdir(st, c) ==
    LET r == Res(st, c.p, TRUE) IN
    IF r.err # "ok" THEN Fail(r.err, st)
    ELSE IF r.id = 0 THEN Fail("ENOENT", st)
    ELSE IF ~IsDir(st, r.id) THEN Fail("ENOTDIR", st)
    ELSE IF ~May(st, r.id, 1) THEN Fail("EACCES", st)
    ELSE Ok([st EXCEPT !.cwd = StackOf(r), !.cwdn = NamesOf(r)])

SetUMask(st, c) == Ok([st EXCEPT !.umask = And(c.perm, 511)])
\* the acting identity of the view changes (the driver does this as the administrator); no supplementary groups
SetUser(st, c) == Ok([st EXCEPT !.uid = c.uid, !.gid = c.gid, !.grps = {}])

(***************************************************************************)
(* Read-only queries.                                                      *)
(***************************************************************************)
InfoOf(st, id) ==
    LET n == st.ino[id] IN
    [k |-> n.k, m |-> n.mode, u |-> n.uid, g |-> n.gid,
     sz |-> IF n.k = "file" THEN Len(n.data) ELSE 0,
     nl |-> IF n.k = "file" THEN Nlink(st, id) ELSE 0]

StatCore(st, c, follow) ==
    LET r == Res(st, c.p, follow) IN
    IF r.err # "ok" THEN Fail(r.err, st)
    ELSE IF r.id = 0 THEN Fail("ENOENT", st)
    ELSE Ret([R0 EXCEPT !.info = InfoOf(st, r.id)], st)

Stat(st, c)  == StatCore(st, c, TRUE)
Lstat(st, c) == StatCore(st, c, FALSE)

Readlink(st, c) ==
    LET r == Res(st, c.p, FALSE) IN
    IF r.err # "ok" THEN Fail(r.err, st)
    ELSE IF r.id = 0 THEN Fail("ENOENT", st)
    ELSE IF ~IsLink(st, r.id) THEN Fail("EINVAL", st)
    ELSE Ret([R0 EXCEPT !.path = st.ino[r.id].tgt], st)

\* names are reported as a set: order is checked by the harness ("srt")
ReadDir(st, c) ==
    LET r == Res(st, c.p, TRUE) IN
    IF r.err # "ok" THEN Fail(r.err, st)
    ELSE IF r.id = 0 THEN Fail("ENOENT", st)
    ELSE IF IsFile(st, r.id) THEN (IF May(st, r.id, 4) THEN Fail("ENOTDIR", st) ELSE Fail("EACCES", st))
    ELSE IF ~May(st, r.id, 4) THEN Fail("EACCES", st)
    ELSE Ret([R0 EXCEPT !.n = Cardinality(DOMAIN st.ino[r.id].ent), !.names = DOMAIN st.ino[r.id].ent], st)

ReadDirNames(st, c) ==
    LET r == Res(st, c.p, TRUE) IN
    IF r.err = "ok" /\ IsDir(st, r.id) THEN DOMAIN st.ino[r.id].ent ELSE {}

ReadFile(st, c) ==
    LET r == Res(st, c.p, TRUE) IN
    IF r.err # "ok" THEN Fail(r.err, st)
    ELSE IF r.id = 0 THEN Fail("ENOENT", st)
    ELSE IF ~May(st, r.id, 4) THEN Fail("EACCES", st)
    ELSE IF IsDir(st, r.id) THEN Fail("EISDIR", st)
    ELSE Ret([R0 EXCEPT !.data = st.ino[r.id].data, !.n = Len(st.ino[r.id].data)], st)

\* filepath.EvalSymlinks on an absolute path: the link-free absolute path of the object
EvalSymlinks(st, c) ==
    LET r == Resolve(st, c.p, TRUE, st.elb) IN
    IF r.err # "ok" THEN Fail(r.err, st)
    ELSE IF r.id = 0 THEN Fail("ENOENT", st)
    ELSE Ret([R0 EXCEPT !.path = [abs |-> TRUE, parts |-> NamesOf(r)]], st)

Getwd(st, c) == Ret([R0 EXCEPT !.path = [abs |-> TRUE, parts |-> st.cwdn]], st)
\* Abs: lexical - the working directory in front of a relative path, then Clean; nothing is looked up
AbsOf(st, c) == Ret([R0 EXCEPT !.path = [abs |-> TRUE, parts |-> LexCleanAcc(TRUE, <<>>, IF c.p.abs THEN c.p.parts ELSE st.cwdn \o c.p.parts)]], st)
\* SetUser / SetUserByName called on the file system itself (the call "setuser" is the driver's change of acting identity)
VSetUser(st, c) == Ok([st EXCEPT !.uid = c.uid, !.gid = c.gid, !.grps = {}])

(***************************************************************************)
(* Dispatch.  Handle operations live in FsHandles (HApply).                *)
(***************************************************************************)
NsOps == {"mkdir", "mkdirall", "openclose", "open", "create", "writefile", "createtemp", "mkdirtemp",
          "remove", "removeall", "rename", "link", "symlink", "truncate", "chmod", "chown", "lchown",
          "chtimes", "chdir", "setumask", "setuser", "stat", "lstat", "readlink", "readdir", "readfile",
          "evalsymlinks", "getwd", "abs", "vsetuser", "vsetuserbyname"}

NsApply(st, c) ==
    CASE c.op = "mkdir"        -> Mkdir(st, c)
      [] c.op = "mkdirall"     -> MkdirAll(st, c)
      [] c.op = "openclose"    -> OpenClose(st, c)
      [] c.op = "open"         -> Open(st, c)
      [] c.op = "create"       -> Create(st, c)
      [] c.op = "writefile"    -> WriteFile(st, c)
      [] c.op = "createtemp"   -> CreateTemp(st, c)
      [] c.op = "mkdirtemp"    -> MkdirTemp(st, c)
      [] c.op = "remove"       -> Remove(st, c)
      [] c.op = "removeall"    -> RemoveAll(st, c)
      [] c.op = "rename"       -> Rename(st, c)
      [] c.op = "link"         -> Link(st, c)
      [] c.op = "symlink"      -> Symlink(st, c)
      [] c.op = "truncate"     -> Truncate(st, c)
      [] c.op = "chmod"        -> Chmod(st, c)
      [] c.op = "chown"        -> Chown(st, c)
      [] c.op = "lchown"       -> Lchown(st, c)
      [] c.op = "chtimes"      -> Chtimes(st, c)
      [] c.op = "chdir"        -> Chdir(st, c)
      [] c.op = "setumask"     -> SetUMask(st, c)
      [] c.op = "setuser"      -> SetUser(st, c)
      [] c.op = "stat"         -> Stat(st, c)
      [] c.op = "lstat"        -> Lstat(st, c)
      [] c.op = "readlink"     -> Readlink(st, c)
      [] c.op = "readdir"      -> ReadDir(st, c)
      [] c.op = "readfile"     -> ReadFile(st, c)
      [] c.op = "evalsymlinks" -> EvalSymlinks(st, c)
      [] c.op = "getwd"        -> Getwd(st, c)
      [] c.op = "abs"          -> AbsOf(st, c)
      [] c.op \in {"vsetuser", "vsetuserbyname"} -> VSetUser(st, c)

(***************************************************************************)
(* Initial state and the canonical projection.                             *)
(***************************************************************************)
\* "/" and the work directory "/w", both 0755 and owned by root; cwd "/", umask 022
InitSt ==
    [ino |-> (Root :> [MkNode("dir", 493, 0, 0) EXCEPT !.ent = ("w" :> 2)]) @@ (2 :> MkNode("dir", 493, 0, 0)),
     next |-> 3, cwd |-> <<Root>>, cwdn |-> <<>>,
     uid |-> 0, gid |-> 0, grps |-> {}, umask |-> 18, h |-> <<>>, tmpn |-> 0,
     lb |-> KernelLinkBudget, elb |-> EvalLinkBudget]

\* all <<path, id>> pairs below directory id
RECURSIVE PathsBelow(_, _, _, _)
PathsBelow(st, id, prefix, fuel) ==
    LET d == st.ino[id] IN
    UNION {{<<Append(prefix, n), d.ent[n]>>} \cup
            (IF st.ino[d.ent[n]].k = "dir" /\ fuel > 0
                THEN PathsBelow(st, d.ent[n], Append(prefix, n), fuel - 1) ELSE {})
           : n \in DOMAIN d.ent}

AllPaths(st) == PathsBelow(st, Root, <<>>, 10)

EntryOf(st, pp, ap) ==
    LET n == st.ino[pp[2]] IN
    [p |-> pp[1], k |-> n.k, m |-> n.mode, u |-> n.uid, g |-> n.gid, d |-> n.data,
     nl |-> IF n.k = "file" THEN Nlink(st, pp[2]) ELSE 0,
     t |-> n.tgt,
     same |-> IF n.k = "file" THEN {q[1] : q \in {x \in ap : x[2] = pp[2]}} ELSE {}]

\* the tree as seen through Lstat / ReadDir / ReadFile / Readlink / SameFile
Proj(st) == LET ap == AllPaths(st) IN {EntryOf(st, pp, ap) : pp \in ap}

\* what Getwd shows; a removed working directory has no path any more
CwdPath(st) ==
    IF Last(st.cwd) \in Reachable(st) THEN [abs |-> TRUE, parts |-> st.cwdn]
    ELSE [abs |-> FALSE, parts |-> <<"GETWD-ENOENT">>]

=============================================================================
