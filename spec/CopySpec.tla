------------------------------- MODULE CopySpec -------------------------------
(***************************************************************************)
(* Enumerates (variant, size class, fault plan) for C16, checks that the   *)
(* reference algorithm satisfies the contract under every plan, and emits  *)
(* the plans with the predicted sequence of consulted primitives.          *)
(***************************************************************************)
EXTENDS Copy, Json, CSV, IOUtils

VARIABLES cur, phase
vars == <<cur, phase>>

Fns == {"OpenFile", "FileRead", "FileWrite", "FileSync", "Stat", "Chmod", "FileClose"}
Sizes == {[chunks |-> c, rem |-> r] : c \in 0..2, r \in BOOLEAN}

Plans(variant, sz) ==
    LET steps == Steps(variant, sz.chunks, sz.rem) IN
    {[side |-> "none", fn |-> "none", k |-> 0]}
    \cup UNION {UNION {{[side |-> s, fn |-> f, k |-> k] :
                            k \in 1..Cardinality({i \in DOMAIN steps : steps[i].side = s /\ steps[i].fn = f})}
                        : f \in Fns} : s \in {"src", "dst"}}

Cases == UNION {UNION {{[variant |-> v, size |-> sz, plan |-> p] : p \in Plans(v, sz)} : sz \in Sizes} : v \in Variants}

EdgeFile == IF "VERIF_EDGES" \in DOMAIN IOEnv THEN IOEnv.VERIF_EDGES ELSE ""
Emit(rec) == IF EdgeFile = "" THEN TRUE ELSE CSVWrite("%1$s", <<ToJson(rec)>>, EdgeFile)

RunOf(c) ==
    LET rr == ReferenceRun(c.variant, c.size.chunks, c.size.rem, c.plan) IN
    [variant |-> c.variant, plan |-> c.plan, consults |-> rr.consults, errnil |-> rr.errnil,
     dstok |-> rr.faithful, permok |-> rr.faithful, sumok |-> rr.faithful]

Init == cur \in Cases /\ phase = "plan"
Next == /\ phase = "plan" /\ phase' = "done" /\ cur' = cur
        /\ Emit([variant |-> cur.variant, chunks |-> cur.size.chunks, rem |-> cur.size.rem, plan |-> cur.plan,
                 consults |-> RunOf(cur).consults, expecterr |-> ~RunOf(cur).errnil])
Spec == Init /\ [][Next]_vars

\* the reference algorithm satisfies the contract under every plan
ReferenceSatisfiesContract == Contract(RunOf(cur))
=============================================================================
