------------------------------- MODULE WrapSpec -------------------------------
(***************************************************************************)
(* Generator for the wrapper properties: phase 1 builds a base tree with   *)
(* elementary calls, then the pseudo call "wrap" puts a wrapper around the *)
(* base, phase 2 issues every call template through the wrapper.  One JSON *)
(* line per phase-2 transition: (build history, wrapper, wrapper history,  *)
(* call, expected result, expected base tree).                             *)
(***************************************************************************)
EXTENDS Wrappers, Json, CSV, IOUtils

CONSTANTS Names, BuildLen, WrapLen, Kind

VARIABLES st, hist, w, wh, last,
          wx     \* wrapper state (FailFS: the fault plan and the consultation counters)
vars == <<st, hist, w, wh, last, wx>>

C0 == [op |-> "", v |-> 0, p |-> NoPath, q |-> NoPath, flag |-> <<>>, perm |-> 0, data |-> <<>>,
       n |-> 0, off |-> 0, wh |-> 0, h |-> 0, uid |-> 0, gid |-> 0]
AbsP(parts) == [abs |-> TRUE, parts |-> parts]
RelP(parts) == [abs |-> FALSE, parts |-> parts]
WorkP == AbsP(<<"w">>)
P1 == {<<"w", a>> : a \in Names}
P2 == {<<"w", a, b>> : a \in Names, b \in Names}
Paths == {AbsP(x) : x \in P1 \cup P2}

\* C10: a fixed base - B with a directory and a file inside, a sentinel file and directory outside
BpBase == <<[C0 EXCEPT !.op = "mkdir", !.p = AbsP(<<"w", "B">>), !.perm = 493],
            [C0 EXCEPT !.op = "mkdir", !.p = AbsP(<<"w", "B", "a">>), !.perm = 493],
            [C0 EXCEPT !.op = "writefile", !.p = AbsP(<<"w", "B", "f">>), !.data = <<1>>, !.perm = 420],
            [C0 EXCEPT !.op = "writefile", !.p = AbsP(<<"w", "s">>), !.data = <<2, 2>>, !.perm = 420],
            [C0 EXCEPT !.op = "mkdir", !.p = AbsP(<<"w", "a">>), !.perm = 493]>>
BpComps == {"a", "f", "b", "..", ".", "B", "s"}
BpPaths == {[abs |-> ab, parts |-> <<x>>] : ab \in BOOLEAN, x \in BpComps}
           \cup {[abs |-> ab, parts |-> <<x, y>>] : ab \in BOOLEAN, x \in BpComps, y \in BpComps}
           \cup {[abs |-> ab, parts |-> <<"..", "..", y>>] : ab \in BOOLEAN, y \in {"s", "a", "w"}}
           \cup {[abs |-> ab, parts |-> <<"a", "..", "..", y>>] : ab \in BOOLEAN, y \in {"s", "B"}}
           \* virtual paths that happen to begin with the base's own path
           \cup {AbsP(<<"w", "B">> \o t) : t \in {<<>>, <<"a">>, <<"..", "s">>, <<"..", "..", "s">>, <<"..", "a", "n">>, <<"f">>}}
           \cup {AbsP(<<>>)}
BpCalls ==
    {[C0 EXCEPT !.op = o, !.p = p] : o \in {"stat", "lstat", "readfile", "readdir", "remove", "removeall", "chdir", "create",
                                            "createtemp", "mkdirtemp"}, p \in BpPaths}
    \cup {[C0 EXCEPT !.op = "mkdir", !.p = p, !.perm = 493] : p \in BpPaths}
    \cup {[C0 EXCEPT !.op = "mkdirall", !.p = p, !.perm = 493] : p \in BpPaths}
    \cup {[C0 EXCEPT !.op = "writefile", !.p = p, !.data = <<3>>, !.perm = 420] : p \in BpPaths}
    \cup {[C0 EXCEPT !.op = "openclose", !.p = p, !.flag = <<"WRONLY", "CREATE">>, !.perm = 420] : p \in BpPaths}
    \cup {[C0 EXCEPT !.op = "truncate", !.p = p, !.n = 0] : p \in BpPaths}
    \cup {[C0 EXCEPT !.op = "chmod", !.p = p, !.perm = 448] : p \in BpPaths}
    \cup {[C0 EXCEPT !.op = o, !.p = p, !.q = q] : o \in {"rename", "link"}, p \in {AbsP(<<"f">>), RelP(<<"f">>), AbsP(<<"a">>)},
                                                    q \in BpPaths}
    \cup {[C0 EXCEPT !.op = "getwd"]}
    \* Sub through the wrapper (absolute directories), then a mutator through what it returns
    \cup {[C0 EXCEPT !.op = o, !.p = AbsP(d), !.q = RelP(<<"t">>), !.data = <<3>>] : o \in {"subwrite", "submkdir"},
              d \in {<<>>, <<"a">>, <<"f">>, <<"b">>, <<"..">>, <<"a", "..", "..", "a">>, <<"w", "B">>}}
    \cup {[C0 EXCEPT !.op = "glob", !.p = p] : p \in {AbsP(<<"*">>), AbsP(<<"a", "*">>), AbsP(<<"..", "*">>), AbsP(<<"?">>), RelP(<<"*">>)}}
    \cup {[C0 EXCEPT !.op = "walk", !.p = p, !.n = k, !.flag = <<"SkipDir">>] : p \in {AbsP(<<>>), AbsP(<<"a">>), AbsP(<<"f">>)}, k \in {0, 2}}

BuildCalls ==
    {[C0 EXCEPT !.op = "mkdir", !.p = p, !.perm = 493] : p \in Paths}
    \cup {[C0 EXCEPT !.op = "writefile", !.p = p, !.data = <<1, 2>>, !.perm = 420] : p \in Paths}
    \cup (IF Kind = "rofs-sym" THEN {[C0 EXCEPT !.op = "symlink", !.p = AbsP(x), !.q = RelP(<<y>>)] : x \in P1, y \in Names} ELSE {})
    \cup {[C0 EXCEPT !.op = "link", !.p = AbsP(x), !.q = AbsP(y)] : x \in P1, y \in P1}

FlagSets == {<<"RDONLY">>, <<"WRONLY">>, <<"RDWR">>, <<"WRONLY", "CREATE">>, <<"RDONLY", "CREATE">>,
             <<"RDWR", "CREATE", "EXCL">>, <<"RDONLY", "TRUNC">>, <<"WRONLY", "APPEND">>, <<"RDONLY", "APPEND">>,
             <<"RDONLY", "EXCL">>}

HandleCalls(s) ==
    UNION {{[C0 EXCEPT !.op = "read", !.h = h, !.n = 2], [C0 EXCEPT !.op = "write", !.h = h, !.data = <<3>>],
            [C0 EXCEPT !.op = "writeat", !.h = h, !.data = <<3>>, !.off = 0], [C0 EXCEPT !.op = "writestring", !.h = h, !.data = <<3>>],
            [C0 EXCEPT !.op = "ftruncate", !.h = h, !.n = 0], [C0 EXCEPT !.op = "fchmod", !.h = h, !.perm = 511],
            [C0 EXCEPT !.op = "fchown", !.h = h, !.uid = 1001, !.gid = 1001], [C0 EXCEPT !.op = "fchown", !.h = h, !.uid = -1, !.gid = 1001],
            [C0 EXCEPT !.op = "fchown", !.h = h, !.uid = 1001, !.gid = -1], [C0 EXCEPT !.op = "fchown", !.h = h, !.uid = -1, !.gid = -1],
            [C0 EXCEPT !.op = "fsync", !.h = h], [C0 EXCEPT !.op = "fchdir", !.h = h],
            [C0 EXCEPT !.op = "seek", !.h = h, !.off = 1, !.wh = 0], [C0 EXCEPT !.op = "fstat", !.h = h],
            [C0 EXCEPT !.op = "freaddirnames", !.h = h, !.n = -1], [C0 EXCEPT !.op = "close", !.h = h]}
           : h \in DOMAIN s.h}

Impl == IF "VERIF_IMPL" \in DOMAIN IOEnv THEN IOEnv.VERIF_IMPL ELSE "memfs"
P1x == {AbsP(x) : x \in P1}
WrapCalls(s) ==
    {[C0 EXCEPT !.op = "mkdir", !.p = p, !.perm = 493] : p \in Paths}
    \cup {[C0 EXCEPT !.op = "mkdirall", !.p = p, !.perm = 493] : p \in Paths}
    \cup {[C0 EXCEPT !.op = "openclose", !.p = p, !.flag = f, !.perm = 420] : p \in Paths, f \in FlagSets}
    \cup {[C0 EXCEPT !.op = "open", !.p = p, !.flag = <<"RDONLY">>] : p \in Paths \cup {WorkP}}
    \cup {[C0 EXCEPT !.op = "open", !.p = p, !.flag = f, !.perm = 420] : p \in Paths, f \in {<<"RDWR">>, <<"WRONLY", "CREATE">>}}
    \cup {[C0 EXCEPT !.op = "create", !.p = p] : p \in Paths}
    \cup {[C0 EXCEPT !.op = "writefile", !.p = p, !.data = <<3>>, !.perm = 420] : p \in Paths}
    \cup {[C0 EXCEPT !.op = o, !.p = p] : o \in {"remove", "removeall", "createtemp", "mkdirtemp", "stat", "lstat",
                                                 "readdir", "readfile", "chdir"}, p \in Paths \cup {WorkP}}
    \cup {[C0 EXCEPT !.op = o, !.p = p, !.q = q] : o \in {"rename", "link"}, p \in Paths, q \in Paths}
    \cup {[C0 EXCEPT !.op = "symlink", !.p = p, !.q = RelP(<<"a">>)] : p \in Paths}
    \cup {[C0 EXCEPT !.op = "truncate", !.p = p, !.n = 0] : p \in Paths}
    \cup {[C0 EXCEPT !.op = "chmod", !.p = p, !.perm = 511] : p \in Paths}
    \cup {[C0 EXCEPT !.op = "chtimes", !.p = p, !.n = 7] : p \in Paths}
    \cup {[C0 EXCEPT !.op = o, !.p = p] : o \in {"readlink", "evalsymlinks"}, p \in P1x}
    \cup {[C0 EXCEPT !.op = "getwd"]}
    \cup {[C0 EXCEPT !.op = "abs", !.p = p] : p \in {RelP(<<"a">>), RelP(<<"..", "b">>), AbsP(<<"w", "..", "a">>)}}
    \* SetUser / SetUserByName on the file system (bases with an identity manager; not with the read-only failure function)
    \cup (IF Impl = "memfs" /\ Kind # "failro"
          THEN {[C0 EXCEPT !.op = o, !.uid = u, !.gid = u] : o \in {"vsetuser", "vsetuserbyname"}, u \in {0, 1001}} ELSE {})
    \cup {[C0 EXCEPT !.op = o, !.p = p, !.uid = u, !.gid = g] : o \in {"chown", "lchown"}, p \in Paths, u \in {1001, -1}, g \in {1001, -1}}
    \cup {[C0 EXCEPT !.op = o, !.p = p, !.q = RelP(<<"a">>), !.data = <<3>>] : o \in {"subwrite", "submkdir"}, p \in Paths \cup {WorkP, AbsP(<<>>)}}
    \* enumeration through the wrapper (C14); FailFS's Glob is a composite whose consultations are not specified
    \cup {[C0 EXCEPT !.op = "walk", !.p = p, !.n = k, !.flag = <<a>>] : p \in {WorkP}, k \in {0, 2}, a \in {"SkipDir", "SkipAll"}}
    \cup (IF Kind = "failfs" THEN {} ELSE {[C0 EXCEPT !.op = "glob", !.p = AbsP(<<"w", g1>>)] : g1 \in {"*", "a*", "?"}}
                                             \cup {[C0 EXCEPT !.op = "glob", !.p = AbsP(<<"w", "*", "*">>)]})
    \cup {[C0 EXCEPT !.op = o, !.p = p] : o \in {"exists", "isdir"} \cup (IF Kind = "failfs" THEN {} ELSE {"isempty"}), p \in P1x}
    \cup HandleCalls(s)

WKind == IF Kind = "rofs-sym" THEN "rofs" ELSE Kind

\* C11: views at /w/B (BpBase tree), at / and at /w; calls as for BasePathFS plus the per-view setters
\* (and, from the plain base, at the EMPTY directory /w/B/a, which the parent may then remove: the life cycle of a
\* view's root)
SubDirs == (IF "VERIF_SUBALL" \in DOMAIN IOEnv THEN {<<"w", "B">>, <<"w">>, <<>>} ELSE {<<"w", "B">>})
           \cup (IF hist = BpBase THEN {<<"w", "B", "a">>} ELSE {})
RootGone(s) == w = "sub" /\ Res(s, AbsP(wx.dir), FALSE).id = 0
SubCalls == BpCalls \cup {[C0 EXCEPT !.op = "setumask", !.perm = m] : m \in {0, 63}}
\* calls on the parent itself (v = 9), interleaved with the calls through the view: what the parent does inside the
\* view's directory is visible through the view at once, and its own working directory and umask stay its own
\* a second view of the same parent, made right after the first: of the directory above the first view's (what
\* it does inside /B shows through the first view at once) - from the plain base only, to keep the universe small
SecondViews(d) == IF d = <<"w", "B">> /\ hist = BpBase THEN {<<"none">>, <<"w">>} ELSE {<<"none">>}
View2Calls ==
    {[C0 EXCEPT !.v = 8, !.op = "mkdir", !.p = p, !.perm = 493] : p \in {AbsP(<<"B", "b">>), AbsP(<<"b">>)}}
    \cup {[C0 EXCEPT !.v = 8, !.op = "writefile", !.p = p, !.data = <<4>>, !.perm = 438] : p \in {AbsP(<<"B", "f">>), AbsP(<<"B", "b">>)}}
    \cup {[C0 EXCEPT !.v = 8, !.op = "remove", !.p = p] : p \in {AbsP(<<"B", "f">>), AbsP(<<"B", "a">>)}}
    \cup {[C0 EXCEPT !.v = 8, !.op = "rename", !.p = AbsP(<<"B", "a">>), !.q = AbsP(<<"B", "b">>)]}
    \cup {[C0 EXCEPT !.v = 8, !.op = "chdir", !.p = p] : p \in {AbsP(<<"B">>), AbsP(<<"a">>)}}
    \cup {[C0 EXCEPT !.v = 8, !.op = "setumask", !.perm = 7], [C0 EXCEPT !.v = 8, !.op = "getwd"]}
    \cup {[C0 EXCEPT !.v = 8, !.op = o, !.p = RelP(<<"f">>)] : o \in {"stat", "readfile"}}
ParentCalls ==
    {[C0 EXCEPT !.v = 9, !.op = "mkdir", !.p = p, !.perm = 493] : p \in {AbsP(<<"w", "B", "b">>), AbsP(<<"w", "b">>)}}
    \cup {[C0 EXCEPT !.v = 9, !.op = "writefile", !.p = p, !.data = <<3>>, !.perm = 438] : p \in {AbsP(<<"w", "B", "f">>), AbsP(<<"w", "B", "b">>)}}
    \cup {[C0 EXCEPT !.v = 9, !.op = "remove", !.p = p] : p \in {AbsP(<<"w", "B", "f">>), AbsP(<<"w", "B", "a">>)}}
    \cup {[C0 EXCEPT !.v = 9, !.op = "rename", !.p = AbsP(<<"w", "B", "a">>), !.q = AbsP(<<"w", "B", "b">>)]}
    \cup {[C0 EXCEPT !.v = 9, !.op = "chdir", !.p = p] : p \in {AbsP(<<"w", "B", "a">>), AbsP(<<"w">>)}}
    \cup {[C0 EXCEPT !.v = 9, !.op = "setumask", !.perm = 7]}
    \cup {[C0 EXCEPT !.v = 9, !.op = "chmod", !.p = AbsP(<<"w", "B", "f">>), !.perm = 384]}

\* FailFS fault plans: the first or second consultation of a primitive fails
PlanFns == {"OpenFile", "FileWrite", "FileClose", "FileRead", "FileStat", "FileReadDir", "ReadFile", "ReadDir", "Mkdir",
            "MkdirTemp", "MkdirAll", "Remove", "RemoveAll", "Rename", "Link", "Symlink", "Truncate", "Chmod", "Chtimes",
            "Stat", "Lstat", "Chdir", "CreateTemp", "FileSeek", "FileTruncate", "FileSync", "FileChmod", "FileWriteAt",
            "FileReadAt", "FileReaddirnames",
            "Chown", "Lchown", "WalkDir", "Sub", "FileChown", "FileChdir", "Readlink", "EvalSymlinks", "Getwd",
            "Abs", "SetUser", "SetUserByName"}
Plans == IF WKind = "failfs" THEN {NoPlan} \cup {[fn |-> f, k |-> k] : f \in PlanFns, k \in 1..2} ELSE {NoPlan}
RECURSIVE JoinSlash(_)
JoinSlash(ps) == IF ps = <<>> THEN "" ELSE "/" \o Head(ps) \o JoinSlash(Tail(ps))
WrapName == IF w = "sub" THEN (IF wx.nested THEN "subn:" ELSE "sub:") \o (IF wx.dir = <<>> THEN "/" ELSE JoinSlash(wx.dir))
                                \o (IF wx.dir2 = <<"none">> THEN "" ELSE "+" \o (IF wx.dir2 = <<>> THEN "/" ELSE JoinSlash(wx.dir2)))
            ELSE IF wx.plan.fn = "none" THEN w ELSE w \o ":" \o wx.plan.fn \o ":" \o ToString(wx.plan.k)
PlanFired == w # "sub" /\ wx.plan.fn # "none" /\ CountOf(wx.fc, wx.plan.fn) >= wx.plan.k

EdgeFile == IF "VERIF_EDGES" \in DOMAIN IOEnv THEN IOEnv.VERIF_EDGES ELSE ""
Emit(rec) == IF EdgeFile = "" THEN TRUE ELSE CSVWrite("%1$s", <<ToJson(rec)>>, EdgeFile)

RECURSIVE RunAll(_, _)
RunAll(s, cs) == IF cs = <<>> THEN s ELSE RunAll(Apply(s, Head(cs)).st, Tail(cs))

\* C11: the parent may have its own working directory and umask when the view is made (neither may change, then or later)
SubBases == {BpBase,
             BpBase \o <<[C0 EXCEPT !.op = "chdir", !.p = AbsP(<<"w", "B">>)], [C0 EXCEPT !.op = "setumask", !.perm = 63]>>}
             \* a non-administrator's view of a directory he may list but not search: the root of the view is an
             \* ordinary directory, calls on it behave as the parent's calls on that directory
             \cup {BpBase \o <<[C0 EXCEPT !.op = "chmod", !.p = AbsP(<<"w", "B">>), !.perm = 388],
                               [C0 EXCEPT !.op = "setuser", !.uid = 1001, !.gid = 1001]>>}
             \cup (IF "VERIF_SUBALL" \in DOMAIN IOEnv THEN {BpBase \o <<[C0 EXCEPT !.op = "chdir", !.p = AbsP(<<"w">>)]>>} ELSE {})
Init == /\ hist \in (IF Kind = "sub" THEN SubBases ELSE IF Kind = "basepath" THEN {BpBase} ELSE {<<>>})
        /\ st = RunAll(InitSt, hist)
        /\ w = "none" /\ wh = <<>> /\ last = [call |-> C0, res |-> R0] /\ wx = X0

Build ==
    /\ w = "none" /\ Len(hist) < BuildLen /\ Kind \notin {"basepath", "sub"}
    /\ \E c \in BuildCalls : LET o == Apply(st, c) IN
          /\ o.res.err = "ok"
          /\ st' = o.st /\ hist' = Append(hist, c) /\ last' = [call |-> c, res |-> o.res] /\ UNCHANGED <<w, wh, wx>>

Wrap == /\ w = "none" /\ w' = WKind /\ UNCHANGED <<st, hist, wh, last>>
        \* (from the parent with its own working directory the view is made level by level - Sub("/w").Sub("/B") -:
        \* a nested view is the view of the concatenated directory)
        /\ IF WKind = "sub" THEN \E d \in SubDirs : \E d2 \in SecondViews(d) :
                                     wx' = [dir |-> d, vcwd |-> <<>>, umask |-> st.umask,
                                            nested |-> (Len(hist) = Len(BpBase) + 2 /\ hist[Len(hist)].op = "setumask"),
                                            dir2 |-> d2, vcwd2 |-> <<>>, umask2 |-> st.umask]
           ELSE \E p \in Plans : wx' = [plan |-> p, fc |-> EmptyFn]

\* the strict outcome through the wrapper (the first admissible error of a refusal is the canonical one)
Through(s, c) ==
    LET outs == {o \in WOutcomes(w, "osfs", s, c, wx) : o.kf = ""}
        pick == IF \E o \in outs : o.res.err = "EACCES" THEN CHOOSE o \in outs : o.res.err = "EACCES"
                ELSE IF \E o \in outs : o.res.err = "EINJECTED" THEN CHOOSE o \in outs : o.res.err = "EINJECTED"
                ELSE CHOOSE o \in outs : TRUE IN
    pick

OneMore == Kind = "sub" /\ w = "sub" /\ Len(wh) = WrapLen /\ Len(wx.dir) = 3 /\ RootGone(st) /\ wh[WrapLen].op = "removeall"
           /\ wh[WrapLen].v = 0 /\ wh[WrapLen].p = AbsP(<<>>) /\ wh[1].v = 9
Call ==
    \* (one longer sequence: the parent removes the root of the view of /w/B/a, the view empties its root, then any call)
    /\ w # "none" /\ ~PlanFired
    /\ (Len(wh) < WrapLen \/ OneMore)
    /\ \E c \in (IF Kind = "basepath" THEN BpCalls ELSE IF Kind = "sub" THEN SubCalls \cup ParentCalls \cup (IF wx.dir2 = <<"none">> THEN {} ELSE View2Calls) ELSE WrapCalls(st)) :
                                  LET o == Through(st, c)
                                      rp == Res(st, IF Kind = "basepath" THEN ToBase(st, c.p)
                                                    ELSE IF Kind = "sub" /\ c.v = 8 THEN ToBaseD(wx.dir2, wx.vcwd2, c.p)
                                                    ELSE IF Kind = "sub" /\ c.v # 9 THEN ToBaseD(wx.dir, wx.vcwd, c.p) ELSE c.p, FALSE) IN
          \* removing or moving the working directory (or an ancestor of it) is outside the universe
          /\ ~(c.op \in {"remove", "removeall", "rename"} /\ rp.err = "ok" /\ rp.id # Root /\ rp.id \in Range(st.cwd))
          \* (emptying the root directory takes the working directory away as well)
          /\ ~(c.op = "removeall" /\ rp.err = "ok" /\ rp.id = Root /\ Len(st.cwd) > 1)
          \* (BasePathFS hands relative paths to the base as they are - KF31 - so the same exclusion applies to the
          \* path as the base reads it)
          /\ ~(Kind = "basepath" /\ ~c.p.abs /\ c.op \in {"remove", "removeall", "rename"}
               /\ LET rr == Res(st, c.p, FALSE) IN rr.err = "ok" /\ rr.id # Root /\ rr.id \in Range(st.cwd))
          \* ... and so is the parent removing or moving the view's working directory from under it
          \* (except that the parent may Remove the root of the view of /w/B/a while the view's working directory is that root)
          /\ ~(Kind = "sub" /\ c.v = 9 /\ c.op \in {"remove", "removeall", "rename"}
               /\ ~(c.op = "remove" /\ c.p.parts = wx.dir /\ wx.vcwd = <<>> /\ Len(wx.dir) = 3)
               /\ LET vc == wx.dir \o wx.vcwd IN Len(c.p.parts) <= Len(vc) /\ SubSeq(vc, 1, Len(c.p.parts)) = c.p.parts)
          \* (the view of /w/B/a does not remove its own root - KF32, exercised by the view of /w/B -: the state after it
          \* would be the same, under VIEW, as the one after the parent's Remove, and only one of the two histories
          \* would be emitted)
          /\ ~(Kind = "sub" /\ c.v = 0 /\ Len(wx.dir) = 3 /\ c.op \in {"remove", "removeall", "rename"}
               /\ ~RootGone(st) /\ ToBaseD(wx.dir, wx.vcwd, c.p).parts = wx.dir)
          \* once the view's root directory is gone, C11 says what happens BELOW it (nothing can be found or created there:
          \* the parent's answer for dir + p); the removed root itself is still an (empty) directory for the view, as the
          \* root of a chroot is for its processes, and is not called upon
          /\ ((RootGone(st) /\ c.v \notin {8, 9}) =>
                 \* (MkdirAll is left out as well: the parent's MkdirAll of dir + p would make dir anew, which the view, holding
                 \* the removed directory, cannot do - it answers ENOENT like the other creating calls)
                 (/\ c.op \notin HOps \cup {"getwd", "subwrite", "submkdir", "walk", "mkdirall"}
                  \* (... except RemoveAll("/"), as the second call of the sequence above)
                  /\ (c.op # "setumask" => (Len(ToBaseD(wx.dir, wx.vcwd, c.p).parts) > Len(wx.dir)
                                             \/ (c.op = "removeall" /\ Len(wh) = WrapLen - 1 /\ c.p = AbsP(<<>>) /\ Len(wx.dir) = 3)))
                  /\ (c.op \in {"rename", "link"} => Len(ToBaseD(wx.dir, wx.vcwd, c.q).parts) > Len(wx.dir))))
          \* (with a second view, only the sequences in which it takes part: the others are those of the single view)
          /\ ~(Kind = "sub" /\ wx.dir2 # <<"none">> /\ wh # <<>> /\ last.call.v # 8 /\ c.v # 8)
          \* (nor one view removing or moving the other view's directory or working directory)
          /\ ~(Kind = "sub" /\ wx.dir2 # <<"none">> /\ c.op \in {"remove", "removeall", "rename"}
               /\ LET tgt == IF c.v = 8 THEN ToBaseD(wx.dir2, wx.vcwd2, c.p).parts ELSE IF c.v = 9 THEN c.p.parts ELSE ToBaseD(wx.dir, wx.vcwd, c.p).parts
                      IsPre(a, b) == Len(a) <= Len(b) /\ SubSeq(b, 1, Len(a)) = a IN
                  IsPre(tgt, wx.dir \o wx.vcwd) \/ IsPre(tgt, wx.dir2 \o wx.vcwd2))
          \* (becoming somebody else is the last call of a sequence: what a non-administrator may do is C03's subject)
          /\ ((c.op \in {"vsetuser", "vsetuserbyname"} /\ c.uid # 0) => Len(wh) = WrapLen - 1)
          \* temporary names are random digits in the implementation and "~k" in the specification: where they fall
          \* in a lexical enumeration is not comparable, so ordered enumerations are not issued once one exists
          /\ ~(c.op \in {"walk", "glob"} /\ st.tmpn > 0)
          \* the enumeration specification (FsEnum) does not describe unreadable or unsearchable directories:
          \* Glob, WalkDir and the helpers are issued by the administrator only
          /\ ~(~IsAdmin(st) /\ c.op \in EnumOps)
          \* C11 speaks of relative paths only "once the view's working directory has been set through the view":
          \* when the parent had a working directory of its own, a relative path needs a Chdir through the view first
          /\ ((Kind = "sub" /\ st.cwdn # <<>> /\ ((~c.p.abs /\ c.op # "setumask") \/ (c.op \in {"rename", "link"} /\ ~c.q.abs)))
                 => (c.v # 9 /\ last.call.op = "chdir" /\ last.call.v = c.v /\ last.res.err = "ok" /\ wh # <<>>))
          \* (the second view: relative paths and Getwd only after a Chdir through that view, whatever the parent's directory)
          /\ ((Kind = "sub" /\ c.v = 8 /\ (~c.p.abs /\ c.op # "setumask"))
                 => (last.call.op = "chdir" /\ last.call.v = 8 /\ last.res.err = "ok" /\ wh # <<>>))
          \* under a fault plan only calls that consult the planned primitive are of interest
          \* (opening a handle is allowed too: the File primitives can only be consulted on one)
          /\ ((w # "sub" /\ wx.plan.fn # "none") => (c.op = "open" \/ \E i \in DOMAIN o.cons : o.cons[i] = wx.plan.fn))
          /\ st' = o.st /\ wh' = Append(wh, c) /\ last' = [call |-> c, res |-> o.res] /\ wx' = o.x /\ UNCHANGED <<hist, w>>
          /\ Emit([hist |-> hist, wrap |-> WrapName, wh |-> wh, call |-> c, res |-> o.res, pre |-> Proj(st),
                   post |-> Proj(o.st), cwd |-> CwdPath(o.st), cons |-> o.cons, hs |-> HObs(o.st), um |-> o.st.umask, uid |-> o.st.uid])
          /\ \A i \in {"memfs", "orefafs"} :
               \A a \in {y \in WOutcomes(w, i, st, c, wx) : y.kf # "" /\ y.cons = o.cons} :
                  Emit([t |-> "alt", hist |-> hist, wrap |-> WrapName, wh |-> wh, call |-> c,
                        alt |-> [impl |-> i, kf |-> a.kf, res |-> a.res, post |-> Proj(a.st), cwd |-> CwdPath(a.st), hs |-> HObs(a.st)]])

Next == Build \/ Wrap \/ Call
Spec == Init /\ [][Next]_vars
View == <<Proj(st), st.cwdn, HView(st), w, wx, Len(hist), Len(wh), OneMore>>

\* C09 on the specification: nothing done through a read-only wrapper changes the base tree
RoNeverChangesBase == [][(w \in {"rofs", "failro"} /\ w' = w) => Proj(st') = Proj(st)]_vars
\* ... and every mutating call is refused
RoRefusesMutators == [][(w \in {"rofs", "failro"} /\ w' = w /\ last'.call.op \in RoMutatingNs \cup RoMutatingH)
                            => last'.res.err \in PermErrs \cup {"CLOSED", "NOHANDLE"}]_vars
\* C10 on the specification: nothing outside B changes through the wrapper
BpConfines == [][(w = "basepath" /\ w' = w) => Outside(st') = Outside(st)]_vars

\* C11 on the specification: a view reaches nothing outside its directory and never changes the parent's own state
SubConfines == [][(w = "sub" /\ w' = w /\ last'.call.v \notin {8, 9}) => (OutsideD(wx.dir, st') = OutsideD(wx.dir, st)
                                             /\ st'.umask = st.umask /\ st'.cwdn = st.cwdn /\ st'.uid = st.uid)]_vars

\* C12 on the specification: an injected failure is returned as such, and without a plan FailFS is the base
Composites == {"readfile", "readdir", "writefile", "create", "mkdirtemp", "openclose", "createtemp", "subwrite", "submkdir"}
InjectedIsReturned ==
    [][(w = "failfs" /\ w' = w /\ ~PlanFired /\ wx'.plan.fn # "none" /\ CountOf(wx'.fc, wx'.plan.fn) >= wx'.plan.k
        \* the driver ignores the Close of CreateTemp's file
        /\ ~(wx.plan.fn = "FileClose" /\ last'.call.op = "createtemp"))
            => IF last'.call.op \in Composites THEN last'.res.err # "ok"       \* a composite fails when a primitive does
               ELSE last'.res.err = "EINJECTED"]_vars                          \* exactly the injected error
=============================================================================
