------------------------------- MODULE MCvol -------------------------------
EXTENDS Volumes
MCMaxLen == IF "VERIF_MAXLEN" \in DOMAIN IOEnv THEN atoi(IOEnv.VERIF_MAXLEN) ELSE 3
=============================================================================
