------------------------------- MODULE MCwrap -------------------------------
EXTENDS WrapSpec
MCNames == {"a", "b"}
MCNameOrder == <<"B", "a", "b", "c", "d", "e", "f", "l1", "l2", "s", "t", "u", "w", "zz">>
MCBuildLen == IF "VERIF_BUILDLEN" \in DOMAIN IOEnv THEN atoi(IOEnv.VERIF_BUILDLEN) ELSE 2
MCWrapLen == IF "VERIF_WRAPLEN" \in DOMAIN IOEnv THEN atoi(IOEnv.VERIF_WRAPLEN) ELSE 2
MCKind == IF "VERIF_KIND" \in DOMAIN IOEnv THEN IOEnv.VERIF_KIND ELSE "rofs"
=============================================================================
