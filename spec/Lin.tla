--------------------------------- MODULE Lin ---------------------------------
(***************************************************************************)
(* Linearizability judge for recorded concurrent executions of the file    *)
(* systems (C06).  A history holds: the sequential set-up calls, the calls *)
(* of every goroutine in program order with the results observed, the      *)
(* real-time precedence pairs (call x returned before call y was issued),  *)
(* and the projection of the final tree.  It is accepted when some total   *)
(* order of the calls that respects program order and real-time order,     *)
(* run through the SEQUENTIAL specification (strict outcomes plus the open *)
(* deviations of the implementation), reproduces every result and the      *)
(* final tree.  All histories of a batch are judged in one evaluation.     *)
(***************************************************************************)
EXTENDS Wrappers, Json, IOUtils

Hists == ndJsonDeserialize(IOEnv.VERIF_HIST)
Target == IOEnv.VERIF_IMPL
VARIABLE done

PostOfH(post) == {[post[i] EXCEPT !.same = Range(@)] : i \in DOMAIN post}
ProjForH(s) == IF Orefa(Target) THEN {[e EXCEPT !.u = 0, !.g = 0] : e \in Proj(s)} ELSE Proj(s)

ResMatchH(op, a, b) ==
    /\ a.err = b.err
    /\ (a.err \in {"ok", "EOF"}) =>
        CASE op \in {"stat", "lstat"} -> (IF Orefa(Target) THEN [a.info EXCEPT !.u = 0, !.g = 0] ELSE a.info) = b.info
          [] op \in {"readdir"} -> a.n = b.n /\ a.names = Range(b.names)
          [] op \in {"readfile"} -> a.data = b.data
          [] op \in {"createtemp", "mkdirtemp"} -> a.n = b.n       \* the name itself is checked for freshness by the driver
          [] OTHER -> TRUE

\* the calls: cs[k] = [g (goroutine), i (position in its program), call, res]
RECURSIVE SeedSt(_, _)
SeedSt(s, calls) == IF calls = <<>> THEN s ELSE SeedSt(Apply(s, CleanCall(Head(calls))).st, Tail(calls))

Perms(n) == {q \in [1..n -> 1..n] : \A i, j \in 1..n : i # j => q[i] # q[j]}

Consistent(h, q) ==
    LET pos(k) == CHOOSE p \in DOMAIN q : q[p] = k IN
    /\ \A a, b \in DOMAIN h.calls :
          (h.calls[a].g = h.calls[b].g /\ h.calls[a].i < h.calls[b].i) => pos(a) < pos(b)
    /\ \A r \in Range(h.rt) : pos(r[1]) < pos(r[2])

\* all specification states reachable by running the calls in order q with matching results
RECURSIVE RunQ(_, _, _, _)
RunQ(h, states, q, k) ==
    IF k > Len(q) \/ states = {} THEN states
    ELSE LET c == h.calls[q[k]]
             nxt == UNION {{o.st : o \in {x \in Outcomes(Target, s, CleanCall(c.call)) : ResMatchH(c.call.op, x.res, c.res)}}
                           : s \in states} IN
         RunQ(h, nxt, q, k + 1)

Lin(h) ==
    LET s0 == SeedSt(InitSt, h.init) IN
    \E q \in Perms(Len(h.calls)) :
        /\ Consistent(h, q)
        /\ \E s \in RunQ(h, {s0}, q, 1) : ProjForH(s) = PostOfH(h.final)

NonLin == {Hists[i].id : i \in {j \in DOMAIN Hists : ~Lin(Hists[j])}}

Init == done = FALSE /\ PrintT(<<"NONLIN", NonLin>>) /\ PrintT(<<"HISTORIES", Len(Hists)>>)
Next == done = FALSE /\ done' = TRUE
Spec == Init /\ [][Next]_done
=============================================================================
