--------------------------------- MODULE Lin ---------------------------------
(***************************************************************************)
(* Linearizability judge for recorded concurrent executions of the file    *)
(* systems (C06).  A history holds: the sequential set-up calls, the calls *)
(* of every goroutine in program order with the results observed, the      *)
(* real-time precedence pairs (call x returned before call y was issued),  *)
(* and the projection of the final tree.  It is accepted when some total   *)
(* order of the calls that respects program order and real-time order,     *)
(* run through the SEQUENTIAL specification (strict outcomes plus the open *)
(* deviations of the implementation), reproduces every result and the      *)
(* final tree.  All histories of a batch are judged in one evaluation.     *)
(***************************************************************************)
EXTENDS Wrappers, Json, IOUtils

Hists == ndJsonDeserialize(IOEnv.VERIF_HIST)
Target == IOEnv.VERIF_IMPL
VARIABLE done

\* CreateTemp/MkdirTemp names are random in the implementation and numbered in linearization order by the
\* specification: both sides are compared with every temporary name replaced by "~" (the driver checks that
\* the names handed out are distinct).
TmpNames == {"~1", "~2", "~3", "~4"}
CanonN(n) == IF n \in TmpNames THEN "~" ELSE n
CanonP(p) == [i \in DOMAIN p |-> CanonN(p[i])]
CanonE(e) == [e EXCEPT !.p = CanonP(@), !.same = {CanonP(x) : x \in @}]
PostOfH(post) == {CanonE([post[i] EXCEPT !.same = Range(@)]) : i \in DOMAIN post}
ProjForH(s) == IF Orefa(Target) THEN {CanonE([e EXCEPT !.u = 0, !.g = 0]) : e \in Proj(s)} ELSE {CanonE(e) : e \in Proj(s)}

ResMatchH(op, a, b) ==
    /\ a.err = b.err
    /\ (a.err \in {"ok", "EOF"}) =>
        CASE op \in {"stat", "lstat"} -> (IF Orefa(Target) THEN [a.info EXCEPT !.u = 0, !.g = 0] ELSE a.info) = b.info
          [] op \in {"readdir"} -> a.n = b.n /\ {CanonN(x) : x \in a.names} = Range(b.names)
          [] op \in {"readfile"} -> a.data = b.data
          [] op \in {"createtemp", "mkdirtemp"} -> a.n = b.n       \* the name itself is checked for freshness by the driver
          [] OTHER -> TRUE

\* the calls: cs[k] = [g (goroutine), i (position in its program), call, res]
RECURSIVE SeedSt(_, _)
SeedSt(s, calls) == IF calls = <<>> THEN s ELSE SeedSt(Apply(s, CleanCall(Head(calls))).st, Tail(calls))

\* call b must come after call a: program order of one goroutine, or a returned before b was issued
Before(h, a, b) ==
    \/ (h.calls[a].g = h.calls[b].g /\ h.calls[a].i < h.calls[b].i)
    \/ <<a, b>> \in Range(h.rt)

\* specification states after call k with the recorded result, from the set of states `states'
StepAll(h, states, k) ==
    LET c == h.calls[k] IN
    UNION {{o.st : o \in {x \in Outcomes(Target, s, CleanCall(c.call)) : ResMatchH(c.call.op, x.res, c.res)}} : s \in states}

\* depth-first search over the linear extensions of Before: `placed' is the set of calls already ordered and
\* `states' the specification states compatible with their results in that order
RECURSIVE Search(_, _, _)
Search(h, states, placed) ==
    IF states = {} THEN FALSE
    ELSE IF placed = DOMAIN h.calls THEN \E s \in states : ProjForH(s) = PostOfH(h.final)
    ELSE \E k \in DOMAIN h.calls \ placed :
            /\ \A a \in DOMAIN h.calls \ placed : ~Before(h, a, k)
            /\ Search(h, StepAll(h, states, k), placed \cup {k})

Lin(h) == h.inv = "ok" /\ Search(h, {SeedSt(InitSt, h.init)}, {})

NonLin == {Hists[i].id : i \in {j \in DOMAIN Hists : ~Lin(Hists[j])}}

Init == done = FALSE /\ PrintT(<<"NONLIN", NonLin>>) /\ PrintT(<<"HISTORIES", Len(Hists)>>)
Next == done = FALSE /\ done' = TRUE
Spec == Init /\ [][Next]_done
=============================================================================
