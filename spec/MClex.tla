------------------------------- MODULE MClex -------------------------------
EXTENDS LexSpec
MC1 == IF "VERIF_LEN1" \in DOMAIN IOEnv THEN atoi(IOEnv.VERIF_LEN1) ELSE 4
MC2 == IF "VERIF_LEN2" \in DOMAIN IOEnv THEN atoi(IOEnv.VERIF_LEN2) ELSE 2
=============================================================================
