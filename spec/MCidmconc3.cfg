CONSTANTS
  Procs <- MCP3
  GNames <- MCG
  UNames <- MCU
SPECIFICATION Spec
INVARIANT MapsAlwaysAgree
INVARIANT Linearizable
CHECK_DEADLOCK FALSE
