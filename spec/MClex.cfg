CONSTANTS
  MaxLen1 <- MC1
  MaxLen2 <- MC2
SPECIFICATION Spec
INVARIANT CleanIdempotent
INVARIANT SplitReassembles
INVARIANT MatchAgrees
CHECK_DEADLOCK FALSE
