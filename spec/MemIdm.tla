------------------------------- MODULE MemIdm -------------------------------
(***************************************************************************)
(* The in-memory identity manager, shaped like the code: two pairs of maps *)
(* (by name / by id) and two monotone counters, each pair guarded by its    *)
(* own lock.  AddUser is TWO critical sections in the code (group lookup    *)
(* under the group lock, then insertion under the user lock); the           *)
(* sequential operator composes them, the concurrent model (MemIdmConc)     *)
(* interleaves them.                                                        *)
(***************************************************************************)
EXTENDS Integers, Sequences, FiniteSets, TLC

MinId == 1000
AdminName == "root"

IR0 == [err |-> "ok", name |-> "", uid |-> -1, gid |-> -1, admin |-> FALSE]
IRet(r, s) == [res |-> r, s |-> s]
IFail(e, s) == [res |-> [IR0 EXCEPT !.err = e], s |-> s]

IdmInit ==
    [gn |-> (AdminName :> 0), gi |-> (0 :> AdminName),
     un |-> (AdminName :> [uid |-> 0, gid |-> 0]), ui |-> (0 :> AdminName),
     maxg |-> MinId, maxu |-> MinId, issuedG |-> {0}, issuedU |-> {0}]

Drop(f, k) == [x \in (DOMAIN f) \ {k} |-> f[x]]

\* a user is an administrator exactly when it is the administrator user (rule "uid0").
\* Rule "gid0" is the known deviation KF20 of the code: any member of group 0 counts as administrator.
IsAdminUser(rule, uid, gid) == IF rule = "gid0" THEN uid = 0 \/ gid = 0 ELSE uid = 0

GroupRes(n, gid) == [IR0 EXCEPT !.name = n, !.gid = gid]
UserResR(rule, n, u) == [IR0 EXCEPT !.name = n, !.uid = u.uid, !.gid = u.gid, !.admin = IsAdminUser(rule, u.uid, u.gid)]
UserRes(n, u) == UserResR("uid0", n, u)

AddGroup(s, c) ==
    IF c.name \in DOMAIN s.gn THEN IFail("EEXISTG", s)
    ELSE LET g == s.maxg + 1 IN
         IRet(GroupRes(c.name, g),
              [s EXCEPT !.maxg = g, !.gn = (c.name :> g) @@ @, !.gi = (g :> c.name) @@ @, !.issuedG = @ \cup {g}])

\* first critical section of AddUser: the group lookup
AddUserLookup(s, c) == IF c.group \in DOMAIN s.gn THEN s.gn[c.group] ELSE -1

\* second critical section: the insertion with the gid found earlier
AddUserInsert(s, c, gid) ==
    IF c.name \in DOMAIN s.un THEN IFail("EEXISTU", s)
    ELSE LET u == s.maxu + 1   rec == [uid |-> u, gid |-> gid] IN
         IRet(UserRes(c.name, rec),
              [s EXCEPT !.maxu = u, !.un = (c.name :> rec) @@ @, !.ui = (u :> c.name) @@ @, !.issuedU = @ \cup {u}])

AddUser(s, c) ==
    LET gid == AddUserLookup(s, c) IN
    IF gid = -1 THEN IFail("ENOG", s) ELSE AddUserInsert(s, c, gid)

DelGroup(s, c) ==
    IF c.name \notin DOMAIN s.gn THEN IFail("ENOG", s)
    ELSE IRet(IR0, [s EXCEPT !.gn = Drop(@, c.name), !.gi = Drop(@, s.gn[c.name])])

DelUser(s, c) ==
    IF c.name \notin DOMAIN s.un THEN IFail("ENOU", s)
    ELSE IRet(IR0, [s EXCEPT !.un = Drop(@, c.name), !.ui = Drop(@, s.un[c.name].uid)])

LookupGroup(s, c) ==
    IF c.name \in DOMAIN s.gn THEN IRet(GroupRes(c.name, s.gn[c.name]), s) ELSE IFail("ENOG", s)
LookupGroupId(s, c) ==
    IF c.id \in DOMAIN s.gi THEN IRet(GroupRes(s.gi[c.id], c.id), s) ELSE IFail("ENOGID", s)
LookupUser(s, c) ==
    IF c.name \in DOMAIN s.un THEN IRet(UserRes(c.name, s.un[c.name]), s) ELSE IFail("ENOU", s)
LookupUserId(s, c) ==
    IF c.id \in DOMAIN s.ui THEN IRet(UserRes(s.ui[c.id], s.un[s.ui[c.id]]), s) ELSE IFail("ENOUID", s)

IdmApply(s, c) ==
    CASE c.op = "addgroup"      -> AddGroup(s, c)
      [] c.op = "adduser"       -> AddUser(s, c)
      [] c.op = "delgroup"      -> DelGroup(s, c)
      [] c.op = "deluser"       -> DelUser(s, c)
      [] c.op = "lookupgroup"   -> LookupGroup(s, c)
      [] c.op = "lookupgroupid" -> LookupGroupId(s, c)
      [] c.op = "lookupuser"    -> LookupUser(s, c)
      [] c.op = "lookupuserid"  -> LookupUserId(s, c)

\* the complete answer table of all lookups, as sets of records
TablesR(rule, s) ==
    [groups |-> {[name |-> n, gid |-> s.gn[n]] : n \in DOMAIN s.gn},
     gids   |-> {[gid |-> i, name |-> s.gi[i]] : i \in DOMAIN s.gi},
     users  |-> {[name |-> n, uid |-> s.un[n].uid, gid |-> s.un[n].gid,
                  admin |-> IsAdminUser(rule, s.un[n].uid, s.un[n].gid)] : n \in DOMAIN s.un},
     uids   |-> {[uid |-> i, name |-> s.ui[i]] : i \in DOMAIN s.ui}]

Tables(s) == TablesR("uid0", s)

\* the result as the rule sees it (only the admin flag of user results depends on the rule)
ResR(rule, r) == IF r.uid # -1 THEN [r EXCEPT !.admin = IsAdminUser(rule, r.uid, r.gid)] ELSE r

(***************************************************************************)
(* Invariants of C15 on a state s.                                         *)
(***************************************************************************)
MapsAgree(s) ==
    /\ \A n \in DOMAIN s.gn : s.gn[n] \in DOMAIN s.gi /\ s.gi[s.gn[n]] = n
    /\ \A i \in DOMAIN s.gi : s.gi[i] \in DOMAIN s.gn /\ s.gn[s.gi[i]] = i
    /\ \A n \in DOMAIN s.un : s.un[n].uid \in DOMAIN s.ui /\ s.ui[s.un[n].uid] = n
    /\ \A i \in DOMAIN s.ui : s.ui[i] \in DOMAIN s.un /\ s.un[s.ui[i]].uid = i
IdsUnique(s) ==
    /\ \A a, b \in DOMAIN s.gn : s.gn[a] = s.gn[b] => a = b
    /\ \A a, b \in DOMAIN s.un : s.un[a].uid = s.un[b].uid => a = b
IdsFromIssued(s) ==
    /\ DOMAIN s.gi \subseteq s.issuedG /\ DOMAIN s.ui \subseteq s.issuedU
    /\ \A i \in s.issuedG : i <= s.maxg /\ (i = 0 \/ i > MinId)
    /\ \A i \in s.issuedU : i <= s.maxu /\ (i = 0 \/ i > MinId)
IdmInv(s) == MapsAgree(s) /\ IdsUnique(s) /\ IdsFromIssued(s)

=============================================================================
