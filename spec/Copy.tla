--------------------------------- MODULE Copy ---------------------------------
(***************************************************************************)
(* CopyFile / CopyFileHash / HashFile as a step sequence over the          *)
(* primitives a copy invokes, with a single-fault plan "the k-th           *)
(* invocation of primitive F on side S fails".                             *)
(*                                                                         *)
(* Two things are specified:                                               *)
(*  - Contract(run): the property itself, stated over a RECORDED run (the   *)
(*    sequence of primitives consulted through FailFS wrappers on both      *)
(*    sides, which one was made to fail, and the final (error, bytes, mode,  *)
(*    digest) observation).  TLC evaluates it on every recorded run.        *)
(*  - the reference algorithm (Steps) with correct error propagation; TLC   *)
(*    checks that it satisfies the contract for every size class and every  *)
(*    fault plan, and uses it to ENUMERATE the plans (k up to the number of  *)
(*    invocations) that the driver then executes against the real code.     *)
(* Sizes are abstract: chunks full buffers plus a remainder flag; the       *)
(* driver maps one buffer to the real 32 KiB.                               *)
(***************************************************************************)
EXTENDS Integers, Sequences, FiniteSets, TLC

Variants == {"copy", "copyhash", "hashfile"}

\* primitives consulted, in the order the reference algorithm invokes them
ReadSeq(chunks, rem) ==
    \* one read per full buffer, one for the remainder, one that returns EOF
    [i \in 1..(chunks + (IF rem THEN 1 ELSE 0) + 1) |-> [side |-> "src", fn |-> "FileRead"]]

CopyLoop(chunks, rem) ==
    \* read / write alternate; the last read delivers EOF and is not followed by a write
    LET n == chunks + (IF rem THEN 1 ELSE 0) IN
    [i \in 1..(2 * n + 1) |-> IF i % 2 = 1 THEN [side |-> "src", fn |-> "FileRead"]
                                           ELSE [side |-> "dst", fn |-> "FileWrite"]]

Steps(variant, chunks, rem) ==
    IF variant = "hashfile"
    THEN <<[side |-> "src", fn |-> "OpenFile"]>> \o ReadSeq(chunks, rem) \o <<[side |-> "src", fn |-> "FileClose"]>>
    ELSE <<[side |-> "src", fn |-> "OpenFile"], [side |-> "dst", fn |-> "OpenFile"]>>
         \o CopyLoop(chunks, rem)
         \o <<[side |-> "dst", fn |-> "FileSync"], [side |-> "src", fn |-> "Stat"], [side |-> "dst", fn |-> "Chmod"],
              [side |-> "dst", fn |-> "FileClose"], [side |-> "src", fn |-> "FileClose"]>>

\* the position of the k-th invocation of (side, fn) in a step sequence, 0 when there are fewer
KthPos(steps, side, fn, k) ==
    LET idx == {i \in DOMAIN steps : steps[i].side = side /\ steps[i].fn = fn
                                     /\ Cardinality({j \in 1..i : steps[j].side = side /\ steps[j].fn = fn}) = k} IN
    IF idx = {} THEN 0 ELSE CHOOSE i \in idx : TRUE

\* a failed step aborts the run, except that deferred closes still run; closing the source is best effort
ReferenceRun(variant, chunks, rem, plan) ==
    LET steps == Steps(variant, chunks, rem)
        pos == IF plan.fn = "none" THEN 0 ELSE KthPos(steps, plan.side, plan.fn, plan.k)
        isclose(i) == steps[i].fn = "FileClose"
        opened(side) == \E i \in 1..(IF pos = 0 THEN Len(steps) ELSE pos - 1) : steps[i].side = side /\ steps[i].fn = "OpenFile"
        executed == IF pos = 0 THEN DOMAIN steps
                    ELSE (1..pos) \cup {i \in (pos + 1)..Len(steps) : isclose(i) /\ opened(steps[i].side)
                                                                        /\ ~(isclose(pos) /\ FALSE)}
        srcCloseOnly == pos # 0 /\ steps[pos].fn = "FileClose" /\ steps[pos].side = "src" IN
    [consults |-> [i \in 1..Cardinality(executed) |->
                      LET j == CHOOSE x \in executed : Cardinality({y \in executed : y < x}) = i - 1 IN
                      [side |-> steps[j].side, fn |-> steps[j].fn, failed |-> (j = pos)]],
     fired |-> pos # 0,
     errnil |-> pos = 0 \/ srcCloseOnly,
     faithful |-> pos = 0 \/ srcCloseOnly]

(***************************************************************************)
(* The contract, over a recorded run r = [variant, plan, consults, errnil,  *)
(* dstok, permok, sumok].                                                   *)
(***************************************************************************)
FiredIn(r) == \E i \in DOMAIN r.consults : r.consults[i].failed

WellFormedRun(r) ==
    \* exactly the planned invocation was made to fail, and nothing else
    \A i \in DOMAIN r.consults :
        r.consults[i].failed <=>
            (/\ r.plan.fn # "none"
             /\ r.consults[i].side = r.plan.side /\ r.consults[i].fn = r.plan.fn
             /\ Cardinality({j \in 1..i : r.consults[j].side = r.plan.side /\ r.consults[j].fn = r.plan.fn}) = r.plan.k)

Contract(r) ==
    /\ WellFormedRun(r)
    \* a nil error only if the destination holds the source's bytes and permission bits and the digest is right
    /\ r.errnil => (r.dstok /\ r.permok /\ r.sumok)
    \* every injected failure is reported; failing to close the SOURCE may be ignored
    /\ (FiredIn(r) /\ ~(r.plan.side = "src" /\ r.plan.fn = "FileClose")) => ~r.errnil

=============================================================================
