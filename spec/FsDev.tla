------------------------------- MODULE FsDev -------------------------------
(***************************************************************************)
(* The deviation catalogue: where the pinned implementation is KNOWN to    *)
(* differ from the reference, as named operators.  Each KFnn(impl, st, c)  *)
(* is the set of outcomes the implementation is known to produce for call  *)
(* c in state st - empty when the call/state is outside the class of the   *)
(* finding.  A deviation is exact: it explains a recorded step only when   *)
(* the recorded result AND post-state equal what the operator yields.      *)
(* Anything else stays a violation.  Which findings are open is decided by *)
(* known_findings.json (generated into KfOpen.tla for every run); a fixed  *)
(* finding is not open, so its behaviour is a violation if it returns.     *)
(***************************************************************************)
EXTENDS FsEnum, KfOpen

Dev(kf, o, inv, skip) == [res |-> o.res, st |-> o.st, kf |-> kf, inv |-> inv, skip |-> skip]
Strict(o) == [res |-> o.res, st |-> o.st, kf |-> "", inv |-> "ok", skip |-> FALSE]

Is(impl, S) == impl \in S

\* DEVIATIONS-BEGIN (one operator per finding; see known_findings.json)

MemLinkBudget == 64      \* memfs: slCountMax

\* impl is the target as logged: "memfs", "orefafs", or "memfs-win" / "orefafs-win" for the Windows-typed instances
WinTyped(impl) == impl \in {"memfs-win", "orefafs-win"}
Mem(impl) == impl \in {"memfs", "memfs-win"}
Orefa(impl) == impl \in {"orefafs", "orefafs-win"}
Both(impl) == Mem(impl) \/ Orefa(impl)

\* lexical cleaning of a component list (what avfs.Clean / Join do to an absolute path)
RECURSIVE LexCleanR(_, _)
LexCleanR(acc, parts) ==
    IF parts = <<>> THEN acc
    ELSE LET c == Head(parts) IN
         IF c = "." \/ c = "" THEN LexCleanR(acc, Tail(parts))
         ELSE IF c = ".." THEN LexCleanR(IF acc = <<>> THEN acc ELSE Front(acc), Tail(parts))
         ELSE LexCleanR(Append(acc, c), Tail(parts))
AbsParts(st, p) == LexCleanR(<<>>, IF p.abs THEN p.parts ELSE st.cwdn \o p.parts)

\* MemFS.searchNode in "eval" mode, reporting where it stopped
RECURSIVE MWalk(_, _, _, _, _)
MWalk(st, stk, nstk, parts, bud) ==
    IF parts = <<>> THEN [kind |-> "found", stk |-> stk, nstk |-> nstk, id |-> Last(stk), rest |-> <<>>]
    ELSE
    LET c == Head(parts)   rest == Tail(parts)   top == Last(stk)   d == st.ino[top] IN
    IF c = "." \/ c = "" THEN MWalk(st, stk, nstk, rest, bud)
    ELSE IF c = ".." THEN MWalk(st, IF Len(stk) > 1 THEN Front(stk) ELSE stk,
                                IF Len(stk) > 1 THEN Front(nstk) ELSE nstk, rest, bud)
    ELSE IF c \notin DOMAIN d.ent THEN [kind |-> "missing", stk |-> stk, nstk |-> nstk, id |-> 0, rest |-> parts]
    ELSE
    LET id == d.ent[c]   n == st.ino[id] IN
    IF n.k = "dir" THEN
        IF rest # <<>> /\ ~May(st, id, 1) THEN [kind |-> "denied", stk |-> stk, nstk |-> nstk, id |-> id, rest |-> parts]
        ELSE MWalk(st, Append(stk, id), Append(nstk, c), rest, bud)
    ELSE IF n.k = "file" THEN
        IF rest = <<>> THEN [kind |-> "found", stk |-> stk, nstk |-> nstk, id |-> id, rest |-> <<>>]
        ELSE [kind |-> "notdir", stk |-> stk, nstk |-> nstk, id |-> id, rest |-> parts]
    ELSE IF bud = 0 THEN [kind |-> "loop", stk |-> stk, nstk |-> nstk, id |-> id, rest |-> parts]
    ELSE MWalk(st, IF n.tgt.abs THEN <<Root>> ELSE stk, IF n.tgt.abs THEN <<>> ELSE nstk,
               n.tgt.parts \o rest, bud - 1)

RECURSIVE MkChain(_, _, _, _)
MkChain(st, dir, names, perm) ==
    IF names = <<>> THEN st
    ELSE MkChain(CreateDirIn(st, dir, Head(names), perm), st.next, Tail(names), perm)

(* KF01  MemFS.Rename of a directory onto itself (same resolved path) succeeds; os.Rename says EEXIST. *)
KF01(impl, st, c) ==
    LET ro == Res(st, c.p, FALSE)   rn == Res(st, c.q, FALSE) IN
    IF Mem(impl) /\ c.op = "rename" /\ ro.err = "ok" /\ rn.err = "ok" /\ IsDir(st, ro.id)
       /\ ro.id = rn.id /\ ro.nm = rn.nm
    THEN {Dev("KF01", Ok(st), "ok", FALSE)} ELSE {}

(* KF02  The root directory as operand of Remove, RemoveAll and Rename: avfs has no EBUSY and answers
         EINVAL (the effect is the reference's: nothing for Remove/Rename, RemoveAll empties the root). *)
KF02(impl, st, c) ==
    LET r == Res(st, c.p, FALSE)
        strict == Apply(st, c) IN
    IF Mem(impl) /\ c.op \in {"remove", "removeall", "rename"} /\ r.err = "ok" /\ r.id = Root
       /\ strict.res.err = "EBUSY"
    THEN {Dev("KF02", [res |-> [strict.res EXCEPT !.err = "EINVAL"], st |-> strict.st], "ok", FALSE)} ELSE {}

(* KF03  MemFS.Rename of a directory onto an existing non-directory answers EEXIST
         (reference: ENOTDIR, or EINVAL / EBUSY when the operands alias). *)
KF03(impl, st, c) ==
    LET ro == Res(st, c.p, FALSE)   rn == Res(st, c.q, FALSE) IN
    IF Mem(impl) /\ c.op = "rename" /\ ro.err = "ok" /\ rn.err = "ok" /\ IsDir(st, ro.id)
       /\ rn.id # 0 /\ ~IsDir(st, rn.id)
    THEN {Dev("KF03", Fail("EEXIST", st), "ok", FALSE)} ELSE {}

(* KF04  MemFS.Mkdir follows a symbolic link in final position (dangling link: the target is created;
         looping link: ELOOP); mkdir(2) answers EEXIST. *)
KF04(impl, st, c) ==
    LET rl == Res(st, c.p, FALSE) IN
    IF Mem(impl) /\ c.op = "mkdir" /\ rl.err = "ok" /\ IsLink(st, rl.id)
    THEN {Dev("KF04", MkdirF(st, c, TRUE, MemLinkBudget), "ok", FALSE)} ELSE {}

(* KF05  MemFS.MkdirAll walks through every symbolic link, final ones included: directories are created
         at the far end of a dangling link, and a looping link makes it return nil without doing anything;
         os.MkdirAll answers EEXIST in both situations. *)
MemMkdirAll(st, c) ==
    LET w == MWalk(st, <<Root>>, <<>>, AbsParts(st, c.p), MemLinkBudget) IN
    CASE w.kind = "found"   -> IF IsDir(st, w.id) THEN Ok(st) ELSE Fail("ENOTDIR", st)
      [] w.kind = "notdir"  -> Fail("ENOTDIR", st)
      [] w.kind = "denied"  -> Fail("EACCES", st)
      [] w.kind = "loop"    -> Ok(st)
      [] w.kind = "missing" -> IF ~MayWX(st, Last(w.stk)) THEN Fail("EACCES", st)
                               ELSE Ok(MkChain(st, Last(w.stk), w.rest, c.perm))

\* does resolving the path meet a symbolic link at all?
RECURSIVE MeetsLink(_, _, _, _)
MeetsLink(st, id, parts, fuel) ==
    IF parts = <<>> \/ fuel = 0 \/ ~IsDir(st, id) THEN FALSE
    ELSE LET c == Head(parts) IN
         IF c \notin DOMAIN st.ino[id].ent THEN FALSE
         ELSE IsLink(st, st.ino[id].ent[c]) \/ MeetsLink(st, st.ino[id].ent[c], Tail(parts), fuel - 1)

KF05(impl, st, c) ==
    IF Mem(impl) /\ c.op = "mkdirall" /\ MeetsLink(st, Root, AbsParts(st, c.p), 8)
    THEN {Dev("KF05", MemMkdirAll(st, c), "ok", FALSE)} ELSE {}

(* KF06  MemFS.OpenFile with O_CREATE|O_EXCL follows a symbolic link in final position
         (dangling link: the target is created; looping link: ELOOP); open(2) answers EEXIST. *)
KF06(impl, st, c) ==
    LET rl == Res(st, c.p, FALSE)
        o == OpenCoreF(st, c, TRUE, MemLinkBudget) IN
    IF Mem(impl) /\ c.op \in {"openclose", "createtemp"} /\ HasFlag(c, "CREATE") /\ HasFlag(c, "EXCL")
       /\ rl.err = "ok" /\ IsLink(st, rl.id)
    THEN {Dev("KF06", [res |-> o.res, st |-> o.st], "ok", FALSE)} ELSE {}

(* KF07  MemFS.Link refuses a symbolic link as source with EPERM; link(2) links the link itself. *)
KF07(impl, st, c) ==
    LET ro == Res(st, c.p, FALSE) IN
    IF Mem(impl) /\ c.op = "link" /\ ro.err = "ok" /\ IsLink(st, ro.id) /\ Apply(st, c).res.err = "ok"
    THEN {Dev("KF07", Fail("EPERM", st), "ok", FALSE)} ELSE {}

(* KF08  MemFS.Rename and OrefaFS.Rename report a missing source (ENOENT) before an unusable destination directory
         (reference: the error of the destination path - ENOTDIR, ELOOP - comes first). *)
KF08(impl, st, c) ==
    LET ro == Res(st, c.p, FALSE)   rn == Res(st, c.q, FALSE) IN
    IF Both(impl) /\ c.op = "rename" /\ ro.err = "ok" /\ ro.id = 0 /\ rn.err \notin {"ok", "ENOENT"}
    THEN {Dev("KF08", Fail("ENOENT", st), "ok", FALSE)} ELSE {}

(* KF10  OrefaFS looks a path up in a flat index: a path that runs through a regular file is simply
         "not found".  Remove, Truncate, Chmod, Chtimes, Chdir and the source operand of Rename and Link
         answer ENOENT where Linux answers ENOTDIR, and RemoveAll answers nil. *)
KF10(impl, st, c) ==
    LET r == Res(st, c.p, FALSE) IN
    IF Orefa(impl) /\ r.err = "ENOTDIR"
       /\ c.op \in {"remove", "truncate", "chmod", "chtimes", "chdir", "rename", "link", "removeall"}
    THEN {Dev("KF10", IF c.op = "removeall" THEN Ok(st) ELSE Fail("ENOENT", st), "ok", FALSE)} ELSE {}

(* KF11  OrefaFS.Rename returns nil at once when both names are the same absolute path, whether or not
         it exists (reference: ENOENT when missing, EEXIST for a directory, ENOTDIR through a file). *)
KF11(impl, st, c) ==
    IF Orefa(impl) /\ c.op = "rename" /\ AbsParts(st, c.p) = AbsParts(st, c.q)
    THEN {Dev("KF11", Ok(st), "ok", FALSE)} ELSE {}

(* KF12  OrefaFS.Rename of a directory onto any existing name answers EEXIST
         (reference: ENOTDIR for a file destination, EINVAL when the destination lies inside the source). *)
KF12(impl, st, c) ==
    LET ro == Res(st, c.p, FALSE)   rn == Res(st, c.q, FALSE) IN
    IF Orefa(impl) /\ c.op = "rename" /\ ro.err = "ok" /\ rn.err = "ok" /\ IsDir(st, ro.id) /\ rn.id # 0
    THEN {Dev("KF12", Fail("EEXIST", st), "ok", FALSE)} ELSE {}

(* KF13  Rename between two hard links of one file removes the source name (MemFS, OrefaFS);
         rename(2) does nothing when both names refer to the same inode. *)
KF13(impl, st, c) ==
    LET ro == Res(st, c.p, FALSE)   rn == Res(st, c.q, FALSE) IN
    IF Both(impl) /\ c.op = "rename" /\ ro.err = "ok" /\ rn.err = "ok" /\ ro.id # 0 /\ ro.id = rn.id
       /\ ~IsDir(st, ro.id) /\ ro.nm # rn.nm /\ LastKind(c.p) = "norm" /\ LastKind(c.q) = "norm"
    THEN {Dev("KF13", Ok(Gc(DelEntry(st, Last(ro.par), ro.name))), "ok", FALSE)} ELSE {}

(* KF14  OrefaFS: looking up or creating below a path that runs through a regular file more than one level up
         (the parent itself is not in the index) answers ENOENT where Linux answers ENOTDIR:
         Stat/Lstat/ReadFile/ReadDir/OpenFile/Create/WriteFile/CreateTemp and the new name of Link and Rename. *)
ParentOf(p) == [abs |-> p.abs, parts |-> Front(p.parts)]
KF14(impl, st, c) ==
    LET viaFile(p) == p.parts # <<>> /\ Res(st, ParentOf(p), FALSE).err = "ENOTDIR" IN
    IF Orefa(impl) /\ (\/ (c.op \in {"openclose", "open", "create", "writefile", "stat", "lstat", "readfile", "readdir"}
                           /\ viaFile(c.p))
                       \/ (c.op = "createtemp" /\ Res(st, c.p, FALSE).err = "ENOTDIR")
                       \/ (c.op \in {"link", "rename"} /\ viaFile(c.q)))
    THEN {Dev("KF14", Fail("ENOENT", st), "ok", FALSE)} ELSE {}

(* KF21  Seek on a directory handle returns 0 and does nothing (MemFS, OrefaFS): os.File.Seek returns the
         requested offset, and Seek(0, 0) rewinds the directory. *)
KF21(impl, st, c) ==
    IF Both(impl) /\ c.op = "seek" /\ ValidH(st, c) /\ H(st, c).open /\ H(st, c).dir
    THEN {Dev("KF21", Ok(st), "ok", FALSE)} ELSE {}

(* KF22  avfs.ToOpenMode decodes the access mode wrongly when O_RDONLY is combined with another flag:
         the handle gets no read access, and write access iff O_CREATE, O_APPEND or O_TRUNC is present
         (so Write/Truncate work on a handle opened O_RDONLY|O_CREATE, Read fails with EBADF, and a
         directory opened O_RDONLY|O_APPEND is refused with EISDIR).
   KF24  O_APPEND is implemented as a single seek to the end at open time (MemFS, OrefaFS): afterwards the
         handle is an ordinary one - Seek moves the write position, two appenders overwrite each other,
         WriteAt is accepted.
   Both concern the one code site that opens a file, so they are modelled together: the outcome is
   labelled with the finding(s) it needs. *)
OddAccess(c) == HasFlag(c, "RDONLY") /\ Len(c.flag) > 1
On(k) == k \in OpenKF
\* MemFS never takes set-uid / set-gid bits away when a non-administrator changes the content of a file
ContentOps == {"writefile", "truncate", "openclose", "open", "create", "chown", "lchown"}
KeepPriv(pre, post) ==
    [post EXCEPT !.ino = [i \in DOMAIN post.ino |->
        IF i \in DOMAIN pre.ino /\ pre.ino[i].k = "file" /\ post.ino[i].k = "file" /\ post.ino[i].mode # pre.ino[i].mode
           /\ post.ino[i].mode = KilledMode(pre, pre.ino[i])
        THEN [post.ino[i] EXCEPT !.mode = pre.ino[i].mode] ELSE post.ino[i]]]
\* with the odd access mode the permission asked of the file is "write" (ToOpenMode yields OpenWrite without
\* OpenRead), so the call is evaluated as if O_WRONLY had been given in place of O_RDONLY
AsWrOnly(c) == [c EXCEPT !.flag = [i \in DOMAIN c.flag |-> IF c.flag[i] = "RDONLY" THEN "WRONLY" ELSE c.flag[i]]]
ImplOpen(st, c, acc, app) ==
    LET strict == OpenCore(st, c)
        o == IF acc THEN OpenCore(st, AsWrOnly(c)) ELSE strict IN
    IF o.id = 0 THEN (IF acc /\ o.res.err # strict.res.err THEN {Fail(o.res.err, st)} ELSE {})
    ELSE IF acc /\ IsDir(o.st, o.id) /\ (HasFlag(c, "APPEND")) THEN {Fail("EISDIR", st)}
    ELSE
    LET h0 == Handle(o.id, c, IsDir(o.st, o.id))
        h1 == IF acc THEN [h0 EXCEPT !.rd = FALSE, !.wr = HasFlag(c, "CREATE") \/ HasFlag(c, "APPEND") \/ HasFlag(c, "TRUNC")]
              ELSE h0
        h2 == IF app /\ h1.app /\ ~h1.dir THEN [h1 EXCEPT !.app = FALSE, !.off = Len(o.st.ino[o.id].data)] ELSE h1
        \* (the implementations do not take set-id bits away on truncation either: KF48)
        ost == IF On("KF48") THEN KeepPriv(st, o.st) ELSE o.st IN
    IF c.op = "openclose" THEN {[res |-> o.res, st |-> ost]}
    ELSE {Ret([R0 EXCEPT !.n = Len(st.h) + 1], [ost EXCEPT !.h = Append(@, h2)])}

KF22(impl, st, c) ==
    IF Both(impl) /\ c.op \in {"open", "openclose"} /\ OddAccess(c)
    THEN {Dev("KF22", o, "ok", FALSE) : o \in ImplOpen(st, c, TRUE, FALSE)} ELSE {}
KF24(impl, st, c) ==
    IF Both(impl) /\ c.op = "open" /\ HasFlag(c, "APPEND")
    THEN {Dev("KF24", o, "ok", FALSE) : o \in ImplOpen(st, c, FALSE, TRUE)} ELSE {}
KF22and24(impl, st, c) ==
    IF Both(impl) /\ c.op = "open" /\ HasFlag(c, "APPEND") /\ OddAccess(c) /\ {"KF22", "KF24"} \subseteq OpenKF
    THEN {Dev("KF22+KF24", o, "ok", FALSE) : o \in ImplOpen(st, c, TRUE, TRUE)} ELSE {}

(* KF25  Read and ReadAt check their arguments in another order than os.File and report end of file for
         an empty buffer: Read(len 0) answers EOF (nil expected); ReadAt on a directory answers EISDIR
         before looking at a negative offset; ReadAt(len 0) beyond the end answers EOF. *)
ImplRead(st, c) ==
    LET h == H(st, c) IN
    IF h.dir THEN Fail("EISDIR", st)
    ELSE IF ~h.rd THEN Fail("EBADF", st)
    ELSE IF c.n = 0 THEN Fail("EOF", st)
    ELSE Read(st, c)
ImplReadAt(st, c) ==
    LET h == H(st, c) IN
    IF h.dir THEN Fail("EISDIR", st)
    ELSE IF c.off < 0 THEN Fail("NEGOFF", st)
    ELSE IF ~h.rd THEN Fail("EBADF", st)
    ELSE IF c.off > Len(Node(st, c).data) THEN Fail("EOF", st)
    ELSE ReadAt(st, c)
KF25(impl, st, c) ==
    IF Both(impl) /\ c.op \in {"read", "readat"} /\ ValidH(st, c) /\ H(st, c).open
    THEN {Dev("KF25", IF c.op = "read" THEN ImplRead(st, c) ELSE ImplReadAt(st, c), "ok", FALSE)} ELSE {}

(* KF27  The cursor of a directory handle restarts (MemFS, OrefaFS): ReadDir/Readdirnames with n <= 0 always
         return the complete current listing (os.File: the REMAINING entries, then nothing), and after the
         io.EOF that ends a batched read the next call starts over from the beginning. *)
KF27(impl, st, c) ==
    IF Both(impl) /\ c.op \in {"freaddir", "freaddirnames"} /\ ValidH(st, c) /\ H(st, c).open /\ H(st, c).dir THEN
        LET h == H(st, c)
            rewound == SetH(st, c, [h EXCEPT !.dstart = FALSE, !.dleft = {}])
            all == DOMAIN Node(st, c).ent IN
        IF c.n <= 0 THEN {Dev("KF27", Ret([R0 EXCEPT !.n = Cardinality(all), !.names = all], rewound), "ok", FALSE)}
        ELSE IF DirLeft(st, c) = {} THEN {Dev("KF27", Ret([R0 EXCEPT !.err = "EOF"], rewound), "ok", FALSE)}
        ELSE {}
    ELSE {}

(* KF29  MemFS gives every path resolution one budget of 64 symbolic links; the kernel follows at most 40
         and filepath.EvalSymlinks at most 255.  Chains of 41..64 links resolve on MemFS where Linux answers
         ELOOP, and EvalSymlinks gives up after 64 where Go goes on to 255. *)
KF29(impl, st, c) ==
    IF Mem(impl) /\ c.op \notin HOps THEN
        LET o == Apply([st EXCEPT !.lb = MemLinkBudget, !.elb = MemLinkBudget], c) IN
        {Dev("KF29", [res |-> o.res, st |-> [o.st EXCEPT !.lb = st.lb, !.elb = st.elb]], "ok", FALSE)}
    ELSE {}

(* KF33  Windows-typed file systems map "not a directory" and "no such directory" to the same Windows error
         (ERROR_PATH_NOT_FOUND), so RemoveAll of a path that runs through a regular file answers nil where the
         Linux-typed file system answers ENOTDIR: the two flavours disagree on success for that call (C17). *)
KF33(impl, st, c) ==
    IF WinTyped(impl) /\ c.op = "removeall" /\ Apply(st, c).res.err = "ENOTDIR"
    THEN {Dev("KF33", Ok(st), "ok", FALSE)} ELSE {}

(* KF34  "Too many levels of symbolic links" is the Linux error value ELOOP in the error table of BOTH OS
         flavours: a Windows-typed MemFS returns a Linux error value for that failure. *)
KF34(impl, st, c) ==
    LET o == Apply(st, c) IN
    IF WinTyped(impl) /\ o.res.err = "ELOOP"
    THEN {Dev("KF34", [res |-> [o.res EXCEPT !.err = "LINUX-ELOOP"], st |-> o.st], "ok", FALSE)} ELSE {}

\* DEVIATIONS-END

(***************************************************************************)
(* The permission family (C03).  MemFS decides with the same class/bit     *)
(* test as the kernel but knows nothing of sticky and set-gid directories, *)
(* of the hard-link protection, keeps Chown for the administrator, and     *)
(* runs RemoveAll and MkdirAll as single operations with fewer checks.     *)
(* The deviations compose (a rename in a sticky directory of a set-gid     *)
(* tree ...), so they are ONE operator: the strict semantics evaluated on  *)
(* the state as MemFS sees it, each ingredient switched on by its own      *)
(* finding being open.                                                     *)
(***************************************************************************)
PermFamily == {"KF40", "KF41", "KF42", "KF43", "KF44", "KF45", "KF46", "KF48", "KF49"}
DirBitsIgnored == (IF On("KF44") THEN 512 ELSE 0) + (IF On("KF42") THEN SETGID ELSE 0)
\* the state as MemFS reads it: sticky / set-gid bits of directories play no part
MemView(st) ==
    [st EXCEPT !.ino = [i \in DOMAIN st.ino |->
        IF st.ino[i].k = "dir" THEN [st.ino[i] EXCEPT !.mode = AndNot(@, DirBitsIgnored)] ELSE st.ino[i]]]
\* ... and back: a directory whose mode the call did not touch keeps the bits that were hidden
Unview(pre, post) ==
    [post EXCEPT !.ino = [i \in DOMAIN post.ino |->
        IF i \in DOMAIN pre.ino /\ pre.ino[i].k = "dir" /\ post.ino[i].k = "dir"
           /\ post.ino[i].mode = AndNot(pre.ino[i].mode, DirBitsIgnored)
        THEN [post.ino[i] EXCEPT !.mode = pre.ino[i].mode] ELSE post.ino[i]]]
\* link(2) without the hard-link protection
LinkUnprotected(st, c) ==
    LET ro == Res(st, c.p, FALSE)
        rn == Res(st, c.q, FALSE) IN
    IF ro.err # "ok" THEN Fail(ro.err, st)
    ELSE IF ro.id = 0 THEN Fail("ENOENT", st)
    ELSE IF rn.err # "ok" THEN Fail(rn.err, st)
    ELSE IF rn.id # 0 \/ LastKind(c.q) # "norm" THEN Fail("EEXIST", st)
    ELSE IF ~MayWX(st, Last(rn.par)) THEN Fail("EACCES", st)
    ELSE IF IsDir(st, ro.id) THEN Fail("EPERM", st)
    ELSE Ok(AddEntry(st, Last(rn.par), rn.name, ro.id))
\* MemFS.removeAll(dir): the write bit of the directory is all it asks for; children in map order (any order)
RECURSIVE MemRmDir(_, _, _)
MemRmDir(st, dir, fuel) ==
    IF ~May(st, dir, 2) THEN {[err |-> "EACCES", st |-> st]}
    ELSE LET RECURSIVE Step(_, _)
             Step(s, todo) ==
                 IF todo = {} THEN {[err |-> "ok", st |-> s]}
                 ELSE UNION {LET id == s.ino[dir].ent[n] IN
                             IF IsDir(s, id) /\ fuel > 0
                             THEN UNION {IF r.err # "ok" THEN {r} ELSE Step(DelEntry(r.st, dir, n), todo \ {n}) : r \in MemRmDir(s, id, fuel - 1)}
                             ELSE Step(DelEntry(s, dir, n), todo \ {n})
                             : n \in todo} IN
         Step(st, DOMAIN st.ino[dir].ent)
MemRemoveAll(st, c) ==
    LET r == Res(st, c.p, FALSE) IN
    IF ~IsEmptyPath(c.p) /\ ~EndsWithDot(c.p) /\ r.err = "ok" /\ r.id = Root
    THEN \* the root directory: emptied as far as allowed, then refused (EINVAL: see KF02)
         {IF i.err # "ok" THEN Fail(i.err, Gc(i.st)) ELSE Fail("EINVAL", Gc(i.st)) : i \in MemRmDir(st, Root, 6)}
    ELSE
    IF ~IsEmptyPath(c.p) /\ ~EndsWithDot(c.p) /\ r.err \notin {"ok", "ENOENT"} THEN {Fail(r.err, st)}     \* the error of the walk, as it is
    ELSE
    IF IsEmptyPath(c.p) \/ EndsWithDot(c.p) \/ r.err # "ok" \/ r.id = 0 \/ LastKind(c.p) # "norm" THEN {}    \* as the reference
    ELSE LET par == Last(r.par)
             inner == IF IsDir(st, r.id) /\ DOMAIN st.ino[r.id].ent # {} THEN MemRmDir(st, r.id, 6) ELSE {[err |-> "ok", st |-> st]} IN
         \* the write bit of the parent directory is asked for first: without it nothing is removed
         IF ~May(st, par, 2) THEN {Fail("EACCES", st)}
         ELSE {IF i.err # "ok" THEN Fail(i.err, Gc(i.st)) ELSE Ok(Gc(DelEntry(i.st, par, r.name))) : i \in inner}
\* new directories keep the set-uid / set-gid bits asked for (mkdir(2) keeps the permission and sticky bits only)
KeepSpecial(pre, post, c) ==
    [post EXCEPT !.ino = [i \in DOMAIN post.ino |->
        IF i \notin DOMAIN pre.ino /\ post.ino[i].k = "dir" THEN [post.ino[i] EXCEPT !.mode = @ + And(c.perm, SETUID + SETGID) - And(@, And(c.perm, SETUID + SETGID))]
        ELSE post.ino[i]]]
PermLabel(st, c) ==
    LET sticky == \E i \in DOMAIN st.ino : st.ino[i].k = "dir" /\ HasBit(st.ino[i].mode, 512)
        setgid == \E i \in DOMAIN st.ino : st.ino[i].k = "dir" /\ HasBit(st.ino[i].mode, SETGID)
        ks == (IF c.op \in {"chown", "lchown"} THEN <<"KF40">> ELSE <<>>)
              \o (IF c.op \in {"mkdir", "mkdirall", "mkdirtemp"} /\ And(c.perm, SETUID + SETGID) # 0 /\ On("KF41") THEN <<"KF41">> ELSE <<>>)
              \o (IF setgid /\ On("KF42") /\ c.op \notin {"chown", "lchown"} THEN <<"KF42">> ELSE <<>>)
              \o (IF c.op = "link" /\ On("KF43") THEN <<"KF43">> ELSE <<>>)
              \o (IF sticky /\ On("KF44") /\ c.op \in {"remove", "removeall", "rename"} THEN <<"KF44">> ELSE <<>>)
              \o (IF c.op = "removeall" /\ On("KF45") THEN <<"KF45">> ELSE <<>>)
              \o (IF c.op = "mkdirall" /\ On("KF46") THEN <<"KF46">> ELSE <<>>)
              \o (IF c.op = "chmod" /\ On("KF49") /\ ~IsAdmin(st) /\ And(c.perm, SETGID) # 0 THEN <<"KF49">> ELSE <<>>)
              \o (IF c.op \in ContentOps /\ On("KF48") /\ (~IsAdmin(st) \/ c.op \in {"chown", "lchown"})
                     /\ (\E i \in DOMAIN st.ino : st.ino[i].k = "file" /\ And(st.ino[i].mode, SETUID + SETGID) # 0) THEN <<"KF48">> ELSE <<>>)
        RECURSIVE Join(_)
        Join(q) == IF q = <<>> THEN "" ELSE IF Len(q) = 1 THEN q[1] ELSE q[1] \o "+" \o Join(Tail(q)) IN
    Join(ks)
MemPerm(impl, st, c) ==
    IF ~Mem(impl) \/ WinTyped(impl) \/ PermFamily \cap OpenKF = {} \/ c.op \notin NsOps THEN {}
    ELSE
    LET v == MemView(st)
        raw == IF c.op \in {"chown", "lchown"} /\ On("KF40") /\ ~IsAdmin(st) THEN {Fail("EPERM", st)}
               ELSE IF c.op = "removeall" /\ On("KF45") THEN MemRemoveAll(v, c)
               ELSE IF c.op = "mkdirall" /\ On("KF46") THEN {MemMkdirAll(v, c)}
               ELSE IF c.op = "link" /\ On("KF43") THEN {LinkUnprotected(v, c)}
               ELSE {Apply(v, c)}
        fin == {LET s1 == IF c.op \in {"mkdir", "mkdirall", "mkdirtemp"} /\ On("KF41") THEN KeepSpecial(v, o.st, c) ELSE o.st
                    s2 == IF c.op \in ContentOps /\ On("KF48") THEN KeepPriv(v, s1) ELSE s1
                    rc == Res(v, c.p, TRUE)
                    \* Chmod stores the bits it is given: an owner outside the file's group keeps the set-gid bit
                    s3 == IF c.op = "chmod" /\ On("KF49") /\ o.res.err = "ok" /\ rc.err = "ok" /\ rc.id # 0
                          THEN [s2 EXCEPT !.ino[rc.id].mode = And(c.perm, 4095)] ELSE s2 IN
                [res |-> o.res, st |-> Unview(st, s3)] : o \in raw}
        strict == AllStrictOutcomes(st, c)
        lab == PermLabel(st, c) IN
    IF lab = "" THEN {} ELSE {Dev(lab, o, "ok", FALSE) : o \in {x \in fin : x \notin strict}}

(* KF47  MemFS.Rename asks for write permission on both parent directories right after resolving the two paths:
         a caller without it gets EACCES where rename(2) first notices that old and new are the same file (nil),
         that the destination is an existing directory (EEXIST / ENOTEMPTY), a descendant of the source (EINVAL),
         of the wrong type (ENOTDIR / EISDIR) or busy (EBUSY). *)
KF47(impl, st, c) ==
    LET ro == Res(st, c.p, FALSE)   rn == Res(st, c.q, FALSE)
        strict == Apply(st, c) IN
    IF Mem(impl) /\ ~WinTyped(impl) /\ c.op = "rename" /\ ~IsAdmin(st) /\ ro.err = "ok" /\ ro.id # 0 /\ rn.err = "ok"
       \* (the root directory is its own parent)
       /\ (~May(st, IF ro.par = <<>> THEN Root ELSE Last(ro.par), 2) \/ ~May(st, IF rn.par = <<>> THEN Root ELSE Last(rn.par), 2))
       /\ strict.res.err # "EACCES"
    THEN {Dev("KF47", Fail("EACCES", st), "ok", FALSE)} ELSE {}

(* KF50  A Windows-typed file accepts an unknown whence in Seek: 0, nil, the offset is not moved (Go's syscall.Seek on
         Windows maps an unknown whence to FILE_BEGIN and seeks; Linux answers EINVAL). *)
KF50(impl, st, c) ==
    IF WinTyped(impl) /\ c.op = "seek" /\ c.wh \notin {0, 1, 2} /\ ValidH(st, c) /\ H(st, c).open /\ ~H(st, c).dir
    THEN {Dev("KF50", Ok(st), "ok", FALSE)} ELSE {}

KFTable(impl, st, c) ==
    [KF01 |-> KF01(impl, st, c), KF02 |-> KF02(impl, st, c), KF03 |-> KF03(impl, st, c),
     KF04 |-> KF04(impl, st, c), KF05 |-> KF05(impl, st, c), KF06 |-> KF06(impl, st, c),
     KF07 |-> KF07(impl, st, c), KF08 |-> KF08(impl, st, c), KF10 |-> KF10(impl, st, c),
     KF11 |-> KF11(impl, st, c), KF12 |-> KF12(impl, st, c), KF13 |-> KF13(impl, st, c),
     KF14 |-> KF14(impl, st, c), KF21 |-> KF21(impl, st, c), KF22 |-> KF22(impl, st, c) \cup KF22and24(impl, st, c),
     KF24 |-> KF24(impl, st, c), KF25 |-> KF25(impl, st, c), KF27 |-> KF27(impl, st, c), KF29 |-> KF29(impl, st, c), KF33 |-> KF33(impl, st, c), KF34 |-> KF34(impl, st, c), KF47 |-> KF47(impl, st, c), KF50 |-> KF50(impl, st, c)]

AllKF == {"KF01", "KF02", "KF03", "KF04", "KF05", "KF06", "KF07", "KF08", "KF10", "KF11", "KF12", "KF13", "KF14", "KF21", "KF22", "KF24", "KF25", "KF27", "KF29", "KF33", "KF34", "KF47", "KF50"}

DevOutcomes(impl, st, c) ==
    LET t == KFTable(impl, st, c)
        d1 == UNION {t[k] : k \in (OpenKF \cap DOMAIN t) \ {"KF34"}} \cup MemPerm(impl, st, c)
        \* KF34 applies to whatever outcome carries ELOOP, strict or deviating
        eloop == {o \in d1 \cup {Strict(y) : y \in AllStrictOutcomes(st, c)} : o.res.err = "ELOOP"}
        w == IF WinTyped(impl) /\ "KF34" \in OpenKF
             THEN {[o EXCEPT !.res.err = "LINUX-ELOOP", !.kf = IF o.kf = "" THEN "KF34" ELSE o.kf \o "+KF34"] : o \in eloop}
             ELSE {} IN
    d1 \cup w

Outcomes(impl, st, c) ==
    IF impl = "osfs" THEN {Strict(o) : o \in AllStrictOutcomes(st, c)}
    ELSE {Strict(o) : o \in AllStrictOutcomes(st, c)} \cup DevOutcomes(impl, st, c)

=============================================================================
