------------------------------- MODULE FsDev -------------------------------
(***************************************************************************)
(* The deviation catalogue: where the pinned implementation is KNOWN to    *)
(* differ from the reference, as named operators.  Each KFnn(impl, st, c)  *)
(* is the set of outcomes the implementation is known to produce for call  *)
(* c in state st - empty when the call/state is outside the class of the   *)
(* finding.  A deviation is exact: it explains a recorded step only when   *)
(* the recorded result AND post-state equal what the operator yields.      *)
(* Anything else stays a violation.  Which findings are open is decided by *)
(* known_findings.json (generated into KfOpen.tla for every run); a fixed  *)
(* finding is not open, so its behaviour is a violation if it returns.     *)
(***************************************************************************)
EXTENDS FsHandles, KfOpen

Dev(kf, o, inv, skip) == [res |-> o.res, st |-> o.st, kf |-> kf, inv |-> inv, skip |-> skip]
Strict(o) == [res |-> o.res, st |-> o.st, kf |-> "", inv |-> "ok", skip |-> FALSE]

Is(impl, S) == impl \in S

\* DEVIATIONS-BEGIN (one operator per finding; see known_findings.json)
\* DEVIATIONS-END

AllKF == {}

DevOutcomes(impl, st, c) == {}

Outcomes(impl, st, c) ==
    IF impl = "osfs" THEN {Strict(o) : o \in StrictOutcomes(st, c)}
    ELSE {Strict(o) : o \in StrictOutcomes(st, c)} \cup DevOutcomes(impl, st, c)

=============================================================================
