SPECIFICATION Spec
INVARIANT ReferenceSatisfiesContract
CHECK_DEADLOCK FALSE
