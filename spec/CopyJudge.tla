------------------------------- MODULE CopyJudge -------------------------------
(* Evaluates Copy!Contract on every recorded run of the real CopyFile/CopyFileHash/HashFile. *)
EXTENDS Copy, Json, IOUtils
Runs == ndJsonDeserialize(IOEnv.VERIF_RUNS)
VARIABLE done
Bad == {Runs[i].id : i \in {j \in DOMAIN Runs : ~Contract(Runs[j])}}
\* model fidelity (not a verdict): does the code consult the primitives in the order the reference does?
OrderDiffers == {Runs[i].id : i \in {j \in DOMAIN Runs :
        LET m == ReferenceRun(Runs[j].variant, Runs[j].chunks, Runs[j].rem, Runs[j].plan).consults IN
        [k \in DOMAIN Runs[j].consults |-> [side |-> Runs[j].consults[k].side, fn |-> Runs[j].consults[k].fn]]
          # [k \in DOMAIN m |-> [side |-> m[k].side, fn |-> m[k].fn]]}}
Init == done = FALSE /\ PrintT(<<"BAD", Bad>>) /\ PrintT(<<"ORDERDIFF", Cardinality(OrderDiffers)>>) /\ PrintT(<<"RUNS", Len(Runs)>>)
Next == done = FALSE /\ done' = TRUE
Spec == Init /\ [][Next]_done
=============================================================================
