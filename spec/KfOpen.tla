------------------------------- MODULE KfOpen -------------------------------
\* Generated from known_findings.json by the orchestrator for every run: the findings whose
\* status is "open".  The committed copy lists none.
OpenKF == {}
=============================================================================
