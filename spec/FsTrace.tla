------------------------------- MODULE FsTrace -------------------------------
(***************************************************************************)
(* Trace validation: every line of the ndjson file is one call executed on *)
(* a real file system (MemFS, OrefaFS or - to keep the reference honest -  *)
(* Go's os package on tmpfs) with its result and the complete projected    *)
(* state.  A line is accepted when some admissible outcome of the call in  *)
(* the current specification state (the strict one, or an OPEN deviation   *)
(* of the catalogue for that implementation) reproduces the recorded       *)
(* result, tree, working directory and handle table and the recorded       *)
(* verdict of the internal invariant checker is "ok" (unless the deviation *)
(* is known to break it).  Many traces are concatenated; line i = 1 starts *)
(* a new one (the orchestrator appends a sentinel line so that the last    *)
(* trace is closed too).  After an unexplained line the rest of that trace *)
(* is skipped                                                              *)
(* so that the traces after it are still judged.                           *)
(* Bookkeeping in TLC registers (hence -workers 1):                        *)
(*   1 = deviation ids used   2 = unexplained <<trace, line>> pairs        *)
(*   3 = high-water mark of l 4 = lines judged  5 = lines skipped          *)
(***************************************************************************)
EXTENDS Wrappers, Json, IOUtils

Trace == ndJsonDeserialize(IOEnv.VERIF_TRACE)
\* the target as logged: "memfs", "orefafs", "osfs", or "memfs-win" / "orefafs-win" for the Windows-typed instances
Target == IOEnv.VERIF_IMPL
IsWin == Target \in {"memfs-win", "orefafs-win"}
Impl == Target

\* a Windows-typed file system answers with Windows error values: the errno of the reference becomes "WIN";
\* modes and owners are documented as OS specific and are not compared (C17)
WinErr(e) == IF e \in {"ok", "EOF", "CLOSED", "NOHANDLE", "NEGOFF", "EAPPENDAT", "EINVALH", "PANIC", "DEADLOCK", "HANG", "EINJECTED", "LINUX-ELOOP"} THEN e ELSE "WIN"

VARIABLES l,
          cands, \* the specification states the implementation may be in: a set of [st, kf] - the recorded
                 \* observations do not always tell which admissible outcome happened (a handle opened with
                 \* a deviating access mode looks the same until it is used), so all candidates are carried
          bad,   \* the rest of the current trace is skipped (after an unexplained line)
          w,     \* wrapper the calls go through: "none", "rofs", ... (set by the pseudo call "wrap")
          mt     \* digest of all modification times of the base, as logged (must not change under a read-only wrapper)
tvars == <<l, cands, bad, w, mt>>

\* the logged projection: "same" arrives as a sequence of paths
PostOf(ev) == {[ev.post[i] EXCEPT !.same = Range(@)] : i \in DOMAIN ev.post}

\* a file system without identity manager shows no owners
ProjFor(s) ==
    IF IsWin THEN {[e EXCEPT !.u = 0, !.g = 0, !.m = 0] : e \in Proj(s)}
    ELSE IF Orefa(Impl) THEN {[e EXCEPT !.u = 0, !.g = 0] : e \in Proj(s)} ELSE Proj(s)

ResMatch(op, a0, b) ==
    LET a == IF IsWin THEN [a0 EXCEPT !.err = WinErr(@), !.info = [@ EXCEPT !.m = 0, !.u = 0, !.g = 0]] ELSE a0 IN
    \* (on a closed file a Windows-typed file system may answer with the Windows value ERROR_INVALID_HANDLE)
    /\ (a.err = b.err \/ (IsWin /\ a.err = "CLOSED" /\ b.err = "WIN"))
    /\ (a.err \in {"ok", "EOF"} \/ (op = "walk" /\ a.err = "ECALLBACK")) =>
        CASE op \in {"stat", "lstat", "fstat"} ->
                IF Orefa(Impl) THEN [a.info EXCEPT !.u = 0, !.g = 0] = b.info ELSE a.info = b.info
          [] op \in {"readlink", "evalsymlinks", "getwd", "abs"} -> a.path = b.path
          [] op \in {"readdir", "freaddir", "freaddirnames"} ->
                a.n = b.n /\ (IF a.err = "ok" THEN a.names = Range(b.names) ELSE TRUE)
          [] op \in {"readfile", "read", "readat"} -> a.n = b.n /\ a.data = b.data
          [] op \in {"write", "writestring", "writeat", "seek", "open"} -> a.n = b.n
          [] op \in {"createtemp", "mkdirtemp"} -> a.n = b.n /\ a.names = b.names
          [] op \in {"glob", "walk"} -> a.names = b.names
          [] op \in {"exists", "direxists", "isdir", "isempty"} -> a.n = b.n
          [] OTHER -> TRUE

Matches(o, ev) ==
    /\ ResMatch(ev.call.op, o.res, ev.res)
    \* after a panic or a deadlock the instance cannot be observed any more
    /\ (ev.res.err \notin {"PANIC", "DEADLOCK", "HANG"}) =>
          (/\ ProjFor(o.st) = PostOf(ev)
           /\ CwdPath(o.st) = ev.cwd
           /\ ((ev.um # -1 /\ ~IsWin) => o.st.umask = ev.um)      \* the umask of the (parent) file system itself
           /\ (("uid" \in DOMAIN ev /\ ev.uid # -1) => o.st.uid = ev.uid)   \* the current user of the base under a wrapper
           /\ (IF IsWin THEN [i \in DOMAIN HObs(o.st) |-> [HObs(o.st)[i] EXCEPT !.m = 0]] ELSE HObs(o.st)) = ev.hs
           /\ ev.srt
           /\ (o.inv = "ok" => ev.inv = "ok"))
    \* a path handed back through BasePathFS never shows the base path (unless a deviation is known to)
    /\ (o.kf = "" => ~ev.leak)

Note(reg, x) == TLCSet(reg, TLCGet(reg) \cup x)
Count(reg) == TLCSet(reg, TLCGet(reg) + 1)

Fresh == {[st |-> InitSt, kf |-> {}, skip |-> FALSE, x |-> X0]}

\* the deviations a finished trace needed: those of a candidate that needed fewest
Fewest(cs) == IF cs = {} THEN {}
              ELSE (CHOOSE c \in cs : \A d \in cs : Cardinality(c.kf) <= Cardinality(d.kf)).kf

TraceInit ==
    /\ l = 1 /\ cands = Fresh /\ bad = FALSE /\ w = "none" /\ mt = ""
    /\ TLCSet(1, {}) /\ TLCSet(2, {}) /\ TLCSet(3, 0) /\ TLCSet(4, 0) /\ TLCSet(5, 0)

TraceStep ==
    /\ l <= Len(Trace)
    /\ l' = l + 1
    /\ TLCSet(3, l)
    /\ LET ev == Trace[l]
           first == ev.i = 1
           pre == IF first THEN Fresh ELSE cands
           wpre == IF first THEN "none" ELSE w
           skip == ~first /\ bad IN
       /\ (first /\ ~bad) => Note(1, Fewest(cands))     \* the previous trace ended here
       /\ IF skip THEN UNCHANGED <<cands, bad, w, mt>> /\ Count(5)
          ELSE IF ev.call.op = "wrap" THEN
               \* from here on the calls of this trace go through a wrapper around the same base
               \* flag = <<kind>> or <<"failfs", fn>> with the plan's k in n; making the wrapper changes nothing
               /\ LET same == {cd \in pre : ProjFor(cd.st) = PostOf(ev) /\ CwdPath(cd.st) = ev.cwd
                                              /\ (ev.um # -1 => cd.st.umask = ev.um)} IN
                  IF same = {} /\ ev.tr # "__end" THEN Note(2, {<<ev.tr, ev.i>>}) ELSE TRUE
               /\ cands' = {[cd EXCEPT !.x = IF ev.call.flag[1] = "sub"
                                              THEN [dir |-> ev.call.p.parts, vcwd |-> <<>>, umask |-> cd.st.umask, nested |-> FALSE,
                                                    \* (a second view: its directory comes in the second operand of the pseudo call)
                                                    dir2 |-> IF ev.call.n = 2 THEN ev.call.q.parts ELSE <<"none">>,
                                                    vcwd2 |-> <<>>, umask2 |-> cd.st.umask]
                                              ELSE IF Len(ev.call.flag) > 1
                                              THEN [plan |-> [fn |-> ev.call.flag[2], k |-> ev.call.n], fc |-> EmptyFn]
                                              ELSE X0] : cd \in pre}
               /\ bad' = (ev.tr # "__end" /\ \A cd \in pre : ~(ProjFor(cd.st) = PostOf(ev) /\ CwdPath(cd.st) = ev.cwd
                                                                  /\ (ev.um # -1 => cd.st.umask = ev.um)))
               /\ w' = ev.call.flag[1] /\ mt' = ev.mt /\ Count(4)
          ELSE
          LET call == IF Impl = "osfs" THEN ev.call ELSE CleanCall(ev.call)
              mtok == wpre \notin {"rofs", "failro"} \/ ev.mt = mt
              consok(o) == wpre # "failfs" \/ o.cons = ev.cons
              nxt == UNION {{[st |-> o.st, kf |-> cd.kf \cup (IF o.kf = "" THEN {} ELSE {o.kf}), skip |-> o.skip, x |-> o.x]
                              : o \in {y \in WOutcomes(wpre, Impl, cd.st, call, cd.x) :
                                          Matches(y, ev) /\ BaseUntouched(wpre, cd.st, y) /\ mtok /\ consok(y)}}
                            : cd \in pre}
              live == {c \in nxt : ~c.skip} IN
          /\ Count(4)
          /\ w' = wpre /\ mt' = (IF wpre \in {"rofs", "failro"} THEN mt ELSE ev.mt)
          /\ IF live # {} THEN cands' = live /\ bad' = FALSE
             ELSE IF nxt # {} THEN
                  \* explained, but only by a deviation after which the reference says nothing about the state
                  cands' = nxt /\ bad' = TRUE /\ Note(1, Fewest(nxt))
             ELSE cands' = pre /\ bad' = TRUE /\ Note(2, {<<ev.tr, ev.i>>}) /\ Note(1, Fewest(pre))

TraceSpec == TraceInit /\ [][TraceStep]_tvars

TraceDone ==
    /\ PrintT(<<"KFUSED", TLCGet(1)>>)
    /\ PrintT(<<"UNEXPLAINED", TLCGet(2)>>)
    /\ PrintT(<<"JUDGED", TLCGet(4), "SKIPPED", TLCGet(5), "HIGHWATER", TLCGet(3), "LEN", Len(Trace)>>)
    /\ TLCGet(3) = Len(Trace)

=============================================================================
