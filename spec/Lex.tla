--------------------------------- MODULE Lex ---------------------------------
(***************************************************************************)
(* The lexical path algebra (path/filepath of the emulated OS) on strings  *)
(* represented as sequences of one-character strings.  Written as normal-  *)
(* form rewriting on element sequences, not as a transcription of the      *)
(* library's lazybuf loop.  os is "linux" or "windows".  For Windows the   *)
(* domain is restricted to strings that do not start with two separators   *)
(* (no UNC / device paths) and whose volume, if any, is a drive LETTER      *)
(* followed by ':' - outside it the generations of volumeNameLen differ    *)
(* (DESIGN.md, C13).                                                       *)
(***************************************************************************)
EXTENDS Integers, Sequences, FiniteSets, TLC

Letters == {"a", "b", "C"}
IsSep(os, c) == c = "/" \/ (os = "windows" /\ c = "\\")
Sep(os) == IF os = "windows" THEN "\\" ELSE "/"

LastOf(s) == s[Len(s)]
FrontOf(s) == SubSeq(s, 1, Len(s) - 1)

VolLen(os, s) == IF os = "windows" /\ Len(s) >= 2 /\ s[1] \in Letters /\ s[2] = ":" THEN 2 ELSE 0

\* split at separators into elements (possibly empty)
RECURSIVE SplitEls(_, _, _)
SplitEls(os, s, cur) ==
    IF s = <<>> THEN <<cur>>
    ELSE IF IsSep(os, Head(s)) THEN <<cur>> \o SplitEls(os, Tail(s), <<>>)
    ELSE SplitEls(os, Tail(s), Append(cur, Head(s)))
Els(os, s) == SelectSeq(SplitEls(os, s, <<>>), LAMBDA e : e # <<>>)

RECURSIVE JoinEls(_, _)
JoinEls(os, es) == IF es = <<>> THEN <<>> ELSE IF Len(es) = 1 THEN es[1] ELSE es[1] \o <<Sep(os)>> \o JoinEls(os, Tail(es))

Dot == <<".">>
DotDot == <<".", ".">>

RECURSIVE Norm(_, _, _)
Norm(rooted, acc, es) ==
    IF es = <<>> THEN acc
    ELSE LET e == Head(es) IN
         IF e = Dot THEN Norm(rooted, acc, Tail(es))
         ELSE IF e = DotDot THEN
             IF acc # <<>> /\ LastOf(acc) # DotDot THEN Norm(rooted, FrontOf(acc), Tail(es))
             ELSE IF rooted THEN Norm(rooted, acc, Tail(es))
             ELSE Norm(rooted, Append(acc, e), Tail(es))
         ELSE Norm(rooted, Append(acc, e), Tail(es))

HasColonFirst(es) == es # <<>> /\ \E i \in DOMAIN es[1] : es[1][i] = ":"

Clean(os, s) ==
    LET vl == VolLen(os, s)   vol == SubSeq(s, 1, vl)   rest == SubSeq(s, vl + 1, Len(s)) IN
    IF rest = <<>> THEN (IF vl = 0 THEN Dot ELSE vol \o Dot)
    ELSE
    LET rooted == IsSep(os, rest[1])
        es == Norm(rooted, <<>>, Els(os, rest))
        body == JoinEls(os, es)
        \* Windows: a relative result whose first element contains ':' would read as a drive: ".\" goes in front;
        \* a rooted result starting with \??  gets \. in front
        plain == IF rooted THEN <<Sep(os)>> \o body ELSE IF body = <<>> THEN Dot ELSE body
        \* the library only post-processes a result it had to rewrite, i.e. one that is not a prefix of its input
        rewritten == ~(Len(plain) <= Len(rest) /\ SubSeq(rest, 1, Len(plain)) = plain)
        guard == IF os = "windows" /\ vl = 0 /\ rewritten /\ ~rooted /\ HasColonFirst(es) THEN <<".", "\\">>
                 ELSE IF os = "windows" /\ vl = 0 /\ rewritten /\ rooted /\ es # <<>> /\ es[1] = <<"?", "?">> THEN <<"\\", ".">>
                 ELSE <<>> IN
    vol \o guard \o plain

IsAbs(os, s) ==
    IF os = "linux" THEN s # <<>> /\ s[1] = "/"
    ELSE VolLen(os, s) = 2 /\ Len(s) > 2 /\ IsSep(os, s[3])

VolumeName(os, s) == SubSeq(s, 1, VolLen(os, s))

FromSlash(os, s) == IF os = "windows" THEN [i \in DOMAIN s |-> IF s[i] = "/" THEN "\\" ELSE s[i]] ELSE s
ToSlash(os, s) == IF os = "windows" THEN [i \in DOMAIN s |-> IF s[i] = "\\" THEN "/" ELSE s[i]] ELSE s

LastSepIdx(os, s) ==
    LET idx == {i \in DOMAIN s : i > VolLen(os, s) /\ IsSep(os, s[i])} IN
    IF idx = {} THEN VolLen(os, s) ELSE CHOOSE i \in idx : \A j \in idx : j <= i

Split(os, s) == LET i == LastSepIdx(os, s) IN [dir |-> SubSeq(s, 1, i), file |-> SubSeq(s, i + 1, Len(s))]

RECURSIVE StripTrail(_, _)
StripTrail(os, s) == IF s # <<>> /\ IsSep(os, LastOf(s)) THEN StripTrail(os, FrontOf(s)) ELSE s

Base(os, s) ==
    IF s = <<>> THEN Dot
    ELSE LET t == StripTrail(os, s)
             u == SubSeq(t, VolLen(os, t) + 1, Len(t))
             i == LastSepIdx(os, u)            \* no volume left in u
             b == SubSeq(u, (IF \E k \in DOMAIN u : IsSep(os, u[k]) THEN i + 1 ELSE 1), Len(u)) IN
         IF b = <<>> THEN <<Sep(os)>> ELSE b

Dir(os, s) ==
    LET vl == VolLen(os, s)   i == LastSepIdx(os, s)
        d == Clean(os, SubSeq(s, vl + 1, i)) IN
    SubSeq(s, 1, vl) \o d

Join2(os, a, b) ==
    \* Join of two elements (Linux flavour; the Windows join has volume rules of its own)
    LET ne == SelectSeq(<<a, b>>, LAMBDA e : e # <<>>) IN
    IF ne = <<>> THEN <<>> ELSE Clean(os, JoinEls(os, ne))

\* Rel (Linux flavour)
RelL(base, targ) ==
    LET b == Clean("linux", base)   t == Clean("linux", targ)
        babs == b[1] = "/"          tabs == t[1] = "/"
        be == IF b = Dot THEN <<>> ELSE Els("linux", b)
        te == Els("linux", t)      \* (filepath.Rel does not normalise a target that cleans to ".": Rel("a", "") is "../.")
        common == CHOOSE k \in 0..Len(be) :
                      /\ k <= Len(te) /\ SubSeq(be, 1, k) = SubSeq(te, 1, k)
                      /\ (k = Len(be) \/ k = Len(te) \/ be[k + 1] # te[k + 1])
        up == [i \in 1..(Len(be) - common) |-> DotDot]
        res == up \o SubSeq(te, common + 1, Len(te)) IN
    IF b = t THEN [err |-> FALSE, path |-> Dot]
    ELSE IF babs # tabs THEN [err |-> TRUE, path |-> <<>>]
    ELSE IF \E i \in (common + 1)..Len(be) : be[i] = DotDot THEN [err |-> TRUE, path |-> <<>>]
    ELSE [err |-> FALSE, path |-> IF res = <<>> THEN Dot ELSE JoinEls("linux", res)]

(***************************************************************************)
(* Shell pattern matching (Linux flavour) on patterns made of literals,    *)
(* '*' and '?' - a declarative relation.                                   *)
(***************************************************************************)
RECURSIVE MatchL(_, _)
MatchL(p, n) ==
    IF p = <<>> THEN n = <<>>
    ELSE IF Head(p) = "*" THEN
        \E k \in 0..Len(n) : (\A i \in 1..k : n[i] # "/") /\ MatchL(Tail(p), SubSeq(n, k + 1, Len(n)))
    ELSE IF n = <<>> THEN FALSE
    ELSE IF Head(p) = "?" THEN Head(n) # "/" /\ MatchL(Tail(p), Tail(n))
    ELSE Head(p) = Head(n) /\ MatchL(Tail(p), Tail(n))

(***************************************************************************)
(* Match for both OS flavours, with character classes, ranges, negation    *)
(* and escapes: a pattern is first parsed into tokens (or found            *)
(* malformed: ErrBadPattern); a well-formed pattern matches a name when    *)
(* the tokens can be laid over the whole name.  "*" and "?" never match    *)
(* the separator of the flavour; a class may.  The backslash escapes the   *)
(* next character on Linux only - on Windows it is the separator and an    *)
(* ordinary member of a class.                                             *)
(***************************************************************************)
Code(c) == CASE c = "*" -> 42 [] c = "-" -> 45 [] c = "." -> 46 [] c = "/" -> 47 [] c = ":" -> 58 [] c = "?" -> 63
             [] c = "C" -> 67 [] c = "[" -> 91 [] c = "\\" -> 92 [] c = "]" -> 93 [] c = "^" -> 94 [] c = "_" -> 95
             [] c = "a" -> 97 [] c = "b" -> 98 [] OTHER -> 0
Escapes(os) == os = "linux"
MSep(os) == IF os = "windows" THEN "\\" ELSE "/"
BadEsc == [ok |-> FALSE, ch |-> "", next |-> 0]
\* one class member starting at position i: the (possibly escaped) character; the class must go on after it
GetEsc(os, p, i) ==
    IF i > Len(p) \/ p[i] = "-" \/ p[i] = "]" THEN BadEsc
    ELSE LET j == IF p[i] = "\\" /\ Escapes(os) THEN i + 1 ELSE i IN
         IF j + 1 > Len(p) THEN BadEsc ELSE [ok |-> TRUE, ch |-> p[j], next |-> j + 1]
BadClass == [ok |-> FALSE, ranges |-> <<>>, next |-> 0]
RECURSIVE ClassRanges(_, _, _, _)
ClassRanges(os, p, i, acc) ==
    IF i <= Len(p) /\ p[i] = "]" /\ Len(acc) > 0 THEN [ok |-> TRUE, ranges |-> acc, next |-> i + 1]
    ELSE LET lo == GetEsc(os, p, i) IN
         IF ~lo.ok THEN BadClass
         ELSE IF p[lo.next] = "-"
              THEN LET hi == GetEsc(os, p, lo.next + 1) IN
                   IF ~hi.ok THEN BadClass ELSE ClassRanges(os, p, hi.next, Append(acc, <<lo.ch, hi.ch>>))
              ELSE ClassRanges(os, p, lo.next, Append(acc, <<lo.ch, lo.ch>>))
Tk(k, c, neg, ranges) == [k |-> k, c |-> c, neg |-> neg, ranges |-> ranges]
\* the token sequence of a pattern; a malformed construct yields the token "bad", after which nothing is read
RECURSIVE Toks(_, _, _)
Toks(os, p, i) ==
    IF i > Len(p) THEN <<>>
    ELSE LET c == p[i]
             bad == <<Tk("bad", "", FALSE, <<>>)>> IN
         IF c = "*" THEN <<Tk("star", "", FALSE, <<>>)>> \o Toks(os, p, i + 1)
         ELSE IF c = "?" THEN <<Tk("any", "", FALSE, <<>>)>> \o Toks(os, p, i + 1)
         ELSE IF c = "[" THEN
              LET neg == i + 1 <= Len(p) /\ p[i + 1] = "^"
                  cr == ClassRanges(os, p, IF neg THEN i + 2 ELSE i + 1, <<>>) IN
              IF ~cr.ok THEN bad ELSE <<Tk("class", "", neg, cr.ranges)>> \o Toks(os, p, cr.next)
         ELSE IF c = "\\" /\ Escapes(os) THEN
              (IF i + 1 > Len(p) THEN bad ELSE <<Tk("lit", p[i + 1], FALSE, <<>>)>> \o Toks(os, p, i + 2))
         ELSE <<Tk("lit", c, FALSE, <<>>)>> \o Toks(os, p, i + 1)
InRanges(rs, c) == \E k \in DOMAIN rs : Code(rs[k][1]) <= Code(c) /\ Code(c) <= Code(rs[k][2])

\* filepath.Match works chunk by chunk - a chunk is a maximal run of tokens without "*", preceded or not by
\* stars - takes the FIRST place where a chunk fits, never comes back on that choice, and reports a malformed
\* chunk only when it gets that far (package path checks the whole pattern, path/filepath does not).
RECURSIVE Chunks(_, _, _)
Chunks(ts, star, acc) ==        \* acc: tokens of the chunk being collected
    IF ts = <<>> THEN (IF acc = <<>> /\ ~star THEN <<>> ELSE <<[star |-> star, toks |-> acc]>>)
    ELSE IF Head(ts).k = "star" THEN
         (IF acc = <<>> THEN Chunks(Tail(ts), TRUE, <<>>)
          ELSE <<[star |-> star, toks |-> acc]>> \o Chunks(Tail(ts), TRUE, <<>>))
    ELSE Chunks(Tail(ts), star, Append(acc, Head(ts)))
TokFits(os, t, c) == CASE t.k = "any" -> c # MSep(os)
                       [] t.k = "lit" -> c = t.c
                       [] OTHER -> InRanges(t.ranges, c) # t.neg
\* the chunk fits the name at offset k (0-based) and leaves SubSeq(n, k + Len(toks) + 1, Len(n))
FitsAt(os, toks, n, k) == k + Len(toks) <= Len(n) /\ \A i \in DOMAIN toks : TokFits(os, toks[i], n[k + i])
RECURSIVE RunChunks(_, _, _)
RunChunks(os, cs, n) ==
    IF cs = <<>> THEN (IF n = <<>> THEN "true" ELSE "false")
    ELSE LET ch == Head(cs)   last == Tail(cs) = <<>> IN
         IF ch.star /\ ch.toks = <<>> THEN (IF \E i \in DOMAIN n : n[i] = MSep(os) THEN "false" ELSE "true")
         ELSE IF \E i \in DOMAIN ch.toks : ch.toks[i].k = "bad" THEN "ERR"
         ELSE LET shifts == {k \in 0..Len(n) : (k = 0 \/ ch.star) /\ \A i \in 1..k : n[i] # MSep(os)}
                  good == {k \in shifts : FitsAt(os, ch.toks, n, k) /\ ~(last /\ k + Len(ch.toks) < Len(n))} IN
              IF good = {} THEN "false"
              ELSE LET k == CHOOSE x \in good : \A y \in good : x <= y IN
                   RunChunks(os, Tail(cs), SubSeq(n, k + Len(ch.toks) + 1, Len(n)))
\* "true" | "false" | "ERR"
Match(os, p, n) == RunChunks(os, Chunks(Toks(os, p, 1), FALSE, <<>>), n)

(***************************************************************************)
(* PathIterator over a clean absolute Linux path: the parts in order, with *)
(* Left + Part + Right reassembling the path.                              *)
(***************************************************************************)
IterParts(s) == Els("linux", s)
=============================================================================
