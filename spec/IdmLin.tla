------------------------------- MODULE IdmLin -------------------------------
(***************************************************************************)
(* Linearizability judge for recorded concurrent MemIdm executions: each    *)
(* history holds the seeding calls, one call per goroutine with its result, *)
(* and the final lookup tables.  A history is accepted when some order of   *)
(* the calls, run sequentially through IdmApply from the seeded state,      *)
(* reproduces every result and the final tables (under the strict admin     *)
(* rule, or under an open deviation's rule).                               *)
(***************************************************************************)
EXTENDS MemIdm, KfOpen, Json, IOUtils

Hists == ndJsonDeserialize(IOEnv.VERIF_HIST)
VARIABLE done

RangeOf(q) == {q[i] : i \in DOMAIN q}
TabOfH(h) == [groups |-> RangeOf(h.tab.groups), gids |-> RangeOf(h.tab.gids),
              users |-> RangeOf(h.tab.users), uids |-> RangeOf(h.tab.uids)]
Rules == {"uid0"} \cup (IF "KF20" \in OpenKF THEN {"gid0"} ELSE {})

RECURSIVE Seed(_, _)
Seed(st, calls) == IF calls = <<>> THEN st ELSE Seed(IdmApply(st, Head(calls)).s, Tail(calls))

Perms(n) == {q \in [1..n -> 1..n] : \A i, j \in 1..n : i # j => q[i] # q[j]}

RECURSIVE RunOrder(_, _, _, _, _)
\* TRUE iff running calls in order q from st reproduces the recorded results and final tables
RunOrder(h, rule, st, q, k) ==
    IF k > Len(q) THEN TablesR(rule, st) = TabOfH(h)
    ELSE LET o == IdmApply(st, h.calls[q[k]]) IN
         ResR(rule, o.res) = h.res[q[k]] /\ RunOrder(h, rule, o.s, q, k + 1)

Lin(h) == \E rule \in Rules : \E q \in Perms(Len(h.calls)) : RunOrder(h, rule, Seed(IdmInit, h.init), q, 1)

NonLin == {Hists[i].id : i \in {j \in DOMAIN Hists : ~Lin(Hists[j])}}

Init == done = FALSE /\ PrintT(<<"NONLIN", NonLin>>) /\ PrintT(<<"HISTORIES", Len(Hists)>>)
Next == done' = TRUE /\ done = FALSE
Spec == Init /\ [][Next]_done
=============================================================================
