------------------------------- MODULE Wrappers -------------------------------
(***************************************************************************)
(* The wrapper file systems as functions of the base file system's         *)
(* transition relation (Outcomes of FsDev: strict semantics plus the open  *)
(* deviations of the base implementation).                                 *)
(*   rofs     : RoFS - read-only view (C09)                                *)
(* A wrapper outcome carries the same fields as a base outcome.            *)
(***************************************************************************)
EXTENDS FsDev

PermErrs == {"EACCES", "EPERM"}

RoMutatingNs == {"mkdir", "mkdirall", "create", "writefile", "createtemp", "mkdirtemp", "remove", "removeall",
                 "rename", "link", "symlink", "truncate", "chmod", "chown", "lchown", "chtimes"}
RoMutatingH == {"write", "writestring", "writeat", "ftruncate", "fchmod", "fchown", "fsync"}
RoForwarded == {"stat", "lstat", "readlink", "readdir", "readfile", "evalsymlinks", "getwd", "chdir", "setumask",
                "read", "readat", "seek", "fstat", "fchdir", "close", "freaddir", "freaddirnames"}

Refused(st) == {Strict(Fail(e, st)) : e \in PermErrs}

\* Sub(dir) followed by a mutator through the returned file system (c.op = "subwrite" / "submkdir")
SubThenMutate(impl, st, c) ==
    LET r == Res(st, c.p, TRUE) IN
    IF impl = "orefafs" THEN Refused(st)
    ELSE IF r.err # "ok" THEN {Strict(Fail(r.err, st))}
    ELSE IF r.id = 0 THEN {Strict(Fail("ENOENT", st))}
    ELSE IF ~IsDir(st, r.id) THEN {Strict(Fail("ENOTDIR", st))}
    ELSE Refused(st)

\* C09: every mutating call is refused with a permission-class error and changes nothing;
\* every read-only call returns what the base returns; files handed out are read-only too.
RoOutcomes(impl, st, c) ==
    IF c.op \in RoMutatingNs THEN Refused(st)
    ELSE IF c.op \in {"open", "openclose"} THEN
        (IF c.flag # <<"RDONLY">> THEN Refused(st) ELSE Outcomes(impl, st, c))
    ELSE IF c.op \in RoMutatingH THEN
        (IF ~ValidH(st, c) THEN {Strict(Fail("NOHANDLE", st))} ELSE Refused(st) \cup {Strict(Fail("CLOSED", st))})
    ELSE IF c.op \in {"subwrite", "submkdir"} THEN SubThenMutate(impl, st, c)
    ELSE IF c.op \in {"vsetuser", "vsetuserbyname"} THEN Refused(st)      \* the user of a read-only file system is fixed
    ELSE Outcomes(impl, st, c)

(***************************************************************************)
(* FailFS (C12).  Every method consults the failure function for one       *)
(* primitive of the FnVFS enumeration and then forwards; composites        *)
(* (Create, WriteFile, ReadFile, ReadDir, MkdirTemp) are re-implemented    *)
(* over the wrapper, so they consult one primitive per inner step.         *)
(* A plan [fn, k] makes the k-th consultation of primitive fn (counted     *)
(* since the wrapper was created) return the injected error EINJECTED.     *)
(* The wrapper state x = [plan, fc] (fc: consultations so far per          *)
(* primitive).  An outcome carries cons (the primitives this call          *)
(* consulted, in order) and the new x.                                     *)
(***************************************************************************)
NoPlan == [fn |-> "none", k |-> 0]
X0 == [plan |-> NoPlan, fc |-> EmptyFn]
CountOf(fc, fn) == IF fn \in DOMAIN fc THEN fc[fn] ELSE 0
Bump(fc, fn) == (fn :> CountOf(fc, fn) + 1) @@ fc
RECURSIVE BumpAll(_, _)
BumpAll(fc, fns) == IF fns = <<>> THEN fc ELSE BumpAll(Bump(fc, Head(fns)), Tail(fns))

\* does the i-th consultation of this call (primitives cons) hit the plan?
HitAt(x, cons, i) ==
    x.plan.fn # "none" /\ cons[i] = x.plan.fn
    /\ CountOf(x.fc, x.plan.fn) + Cardinality({j \in 1..i : cons[j] = x.plan.fn}) = x.plan.k

SinglePrim(c) ==
    CASE c.op = "mkdir" -> "Mkdir" [] c.op = "mkdirall" -> "MkdirAll" [] c.op = "remove" -> "Remove"
      [] c.op = "removeall" -> "RemoveAll" [] c.op = "rename" -> "Rename" [] c.op = "link" -> "Link"
      [] c.op = "symlink" -> "Symlink" [] c.op = "truncate" -> "Truncate" [] c.op = "chmod" -> "Chmod"
      [] c.op = "chown" -> "Chown" [] c.op = "lchown" -> "Lchown" [] c.op = "chtimes" -> "Chtimes"
      [] c.op = "chdir" -> "Chdir" [] c.op = "stat" -> "Stat" [] c.op = "lstat" -> "Lstat"
      [] c.op = "readlink" -> "Readlink" [] c.op = "evalsymlinks" -> "EvalSymlinks" [] c.op = "getwd" -> "Getwd"
      [] c.op = "createtemp" -> "CreateTemp" [] c.op = "open" -> "OpenFile" [] c.op = "walk" -> "WalkDir"
      [] c.op \in {"exists", "direxists", "isdir"} -> "Stat"
      [] c.op = "read" -> "FileRead" [] c.op = "readat" -> "FileReadAt" [] c.op \in {"write", "writestring"} -> "FileWrite"
      [] c.op = "writeat" -> "FileWriteAt" [] c.op = "seek" -> "FileSeek" [] c.op = "ftruncate" -> "FileTruncate"
      [] c.op = "fstat" -> "FileStat" [] c.op = "fsync" -> "FileSync" [] c.op = "fchmod" -> "FileChmod"
      [] c.op = "fchown" -> "FileChown" [] c.op = "fchdir" -> "FileChdir" [] c.op = "close" -> "FileClose"
      [] c.op = "freaddir" -> "FileReadDir" [] c.op = "freaddirnames" -> "FileReaddirnames"
      [] c.op = "abs" -> "Abs" [] c.op = "vsetuser" -> "SetUser" [] c.op = "vsetuserbyname" -> "SetUserByName"
      [] OTHER -> "none"

FOut(o, cons, x) == [res |-> o.res, st |-> o.st, kf |-> o.kf, inv |-> o.inv, skip |-> o.skip,
                     cons |-> cons, x |-> [x EXCEPT !.fc = BumpAll(@, cons)]]
Injected(st) == Strict(Fail("EINJECTED", st))

\* a call that consults exactly one primitive and forwards
FailSingle(impl, st, c, x) ==
    LET fn == SinglePrim(c)   cons == <<fn>> IN
    IF HitAt(x, cons, 1) THEN {FOut(Injected(st), cons, x)}
    ELSE {FOut(o, cons, x) : o \in Outcomes(impl, st, c)}

OpenStep(impl, st, c) == {o \in Outcomes(impl, st, [c EXCEPT !.op = "open"]) : TRUE}

\* OpenFile then Close by the caller (openclose, create): <<OpenFile, FileClose>>
FailOpenClose(impl, st, c, x) ==
    LET oc == IF c.op = "create" THEN [c EXCEPT !.op = "openclose", !.flag = CreateFlags, !.perm = 438] ELSE c IN
    IF HitAt(x, <<"OpenFile">>, 1) THEN {FOut(Injected(st), <<"OpenFile">>, x)}
    ELSE UNION {IF o.res.err # "ok" THEN {FOut(o, <<"OpenFile">>, x)}
                ELSE IF HitAt(x, <<"OpenFile", "FileClose">>, 2)
                     THEN {FOut([o EXCEPT !.res = [R0 EXCEPT !.err = "EINJECTED"]], <<"OpenFile", "FileClose">>, x)}
                     ELSE {FOut(o, <<"OpenFile", "FileClose">>, x)}
                : o \in Outcomes(impl, st, oc)}

\* CreateTemp hands out a FailFile, which the caller closes: <<CreateTemp, FileClose>>
FailCreateTemp(impl, st, c, x) ==
    IF HitAt(x, <<"CreateTemp">>, 1) THEN {FOut(Injected(st), <<"CreateTemp">>, x)}
    ELSE UNION {IF o.res.err # "ok" THEN {FOut(o, <<"CreateTemp">>, x)}
                ELSE {FOut(o, <<"CreateTemp", "FileClose">>, x)}
                : o \in Outcomes(impl, st, c)}

\* avfs.WriteFile over the wrapper: OpenFile(WRONLY|CREATE|TRUNC), FileWrite, FileClose
FailWriteFile(impl, st, c, x) ==
    LET oc == [c EXCEPT !.op = "openclose", !.flag = <<"WRONLY", "CREATE", "TRUNC">>] IN
    IF HitAt(x, <<"OpenFile">>, 1) THEN {FOut(Injected(st), <<"OpenFile">>, x)}
    ELSE UNION {
        IF o.res.err # "ok" THEN {FOut(o, <<"OpenFile">>, x)}
        ELSE LET all == <<"OpenFile", "FileWrite", "FileClose">>
                 full == Outcomes(impl, st, c) IN
             IF HitAt(x, all, 2) THEN {FOut([o EXCEPT !.res = [R0 EXCEPT !.err = "EINJECTED"]], all, x)}   \* created/truncated, nothing written
             ELSE IF HitAt(x, all, 3) THEN {FOut([f EXCEPT !.res = [R0 EXCEPT !.err = "EINJECTED"]], all, x) : f \in full}
             ELSE {FOut(f, all, x) : f \in full}
        : o \in Outcomes(impl, st, oc)}

\* avfs.ReadFile over the wrapper: ReadFile, OpenFile(RDONLY), FileStat, FileRead (twice when the file is
\* not empty: the second read finds the end), FileClose; failures of Stat and Close are ignored (as os.ReadFile)
FailReadFile(impl, st, c, x) ==
    LET oc == [c EXCEPT !.op = "openclose", !.flag = <<"RDONLY">>]
        full == Apply(st, c)
        nread == IF full.res.err = "ok" /\ full.res.n > 0 THEN 2 ELSE 1
        all == <<"ReadFile", "OpenFile", "FileStat">> \o [i \in 1..nread |-> "FileRead"] \o <<"FileClose">> IN
    IF HitAt(x, <<"ReadFile">>, 1) THEN {FOut(Injected(st), <<"ReadFile">>, x)}
    ELSE IF HitAt(x, <<"ReadFile", "OpenFile">>, 2) THEN {FOut(Injected(st), <<"ReadFile", "OpenFile">>, x)}
    ELSE UNION {
        IF o.res.err # "ok" THEN {FOut(o, <<"ReadFile", "OpenFile">>, x)}
        ELSE IF HitAt(x, all, 4) THEN {FOut(Injected(st), <<"ReadFile", "OpenFile", "FileStat", "FileRead", "FileClose">>, x)}
        ELSE IF nread = 2 /\ HitAt(x, all, 5)
             THEN {FOut(Strict([res |-> [full.res EXCEPT !.err = "EINJECTED"], st |-> st]), all, x)}
        ELSE {FOut(f, all, x) : f \in Outcomes(impl, st, c)}
        : o \in Outcomes(impl, st, oc)}

\* avfs.ReadDir over the wrapper: ReadDir, OpenFile(RDONLY), FileReadDir, FileClose (ignored)
FailReadDir(impl, st, c, x) ==
    LET oc == [c EXCEPT !.op = "openclose", !.flag = <<"RDONLY">>]
        all == <<"ReadDir", "OpenFile", "FileReadDir", "FileClose">> IN
    IF HitAt(x, <<"ReadDir">>, 1) THEN {FOut(Injected(st), <<"ReadDir">>, x)}
    ELSE IF HitAt(x, <<"ReadDir", "OpenFile">>, 2) THEN {FOut(Injected(st), <<"ReadDir", "OpenFile">>, x)}
    ELSE UNION {
        IF o.res.err # "ok" THEN {FOut(o, <<"ReadDir", "OpenFile">>, x)}
        ELSE IF HitAt(x, all, 3) THEN {FOut(Injected(st), all, x)}
        ELSE {FOut(f, all, x) : f \in Outcomes(impl, st, c)}
        : o \in Outcomes(impl, st, oc)}

\* avfs.MkdirTemp over the wrapper: MkdirTemp, Mkdir
FailMkdirTemp(impl, st, c, x) ==
    IF HitAt(x, <<"MkdirTemp">>, 1) THEN {FOut(Injected(st), <<"MkdirTemp">>, x)}
    ELSE IF HitAt(x, <<"MkdirTemp", "Mkdir">>, 2) THEN {FOut(Injected(st), <<"MkdirTemp", "Mkdir">>, x)}
    \* when Mkdir reports a missing directory, MkdirTemp stats the directory to tell which path is missing
    ELSE {FOut(o, IF o.res.err = "ENOENT" THEN <<"MkdirTemp", "Mkdir", "Stat">> ELSE <<"MkdirTemp", "Mkdir">>, x)
          : o \in Outcomes(impl, st, c)}

\* Sub(dir), then WriteFile / Mkdir of dir/q through the FailFS it returns (same failure function)
FailSubThen(impl, st, c, x) ==
    LET r == Res(st, c.p, TRUE)
        x1 == [x EXCEPT !.fc = Bump(@, "Sub")]
        inner == [c EXCEPT !.op = IF c.op = "subwrite" THEN "writefile" ELSE "mkdir",
                           !.p = [abs |-> c.p.abs, parts |-> c.p.parts \o c.q.parts], !.perm = IF c.op = "subwrite" THEN 420 ELSE 493]
        pre(o) == [o EXCEPT !.cons = <<"Sub">> \o @]
        bad(e) == {FOut(Strict(Fail(e, st)), <<"Sub">>, x)} IN
    IF HitAt(x, <<"Sub">>, 1) THEN {FOut(Injected(st), <<"Sub">>, x)}
    ELSE IF impl = "orefafs" THEN bad("EPERM") \cup bad("EACCES")
    ELSE IF r.err # "ok" THEN bad(r.err)
    ELSE IF r.id = 0 THEN bad("ENOENT")
    ELSE IF ~IsDir(st, r.id) THEN bad("ENOTDIR")
    ELSE {pre(o) : o \in (IF c.op = "subwrite" THEN FailWriteFile(impl, st, inner, x1) ELSE FailSingle(impl, st, inner, x1))}

(* KF30  avfs.ReadFile and avfs.ReadDir ignore a failing Stat and a failing Close of the file they opened
         themselves (as os.ReadFile does): through FailFS the composite succeeds although a primitive it is
         built on was made to fail.  Strictly, the injected error is returned; the deviation keeps the result. *)
IgnoredHit(c, x, cons) ==
    \E i \in DOMAIN cons : HitAt(x, cons, i) /\ cons[i] \in {"FileStat", "FileClose"}
StrictOrKF30(c, outs, x) ==
    UNION {IF c.op \in {"readfile", "readdir"} /\ o.res.err = "ok" /\ IgnoredHit(c, x, o.cons)
           THEN {[o EXCEPT !.res = [R0 EXCEPT !.err = "EINJECTED"]]}
                \cup (IF "KF30" \in OpenKF THEN {[o EXCEPT !.kf = "KF30"]} ELSE {})
           ELSE {o} : o \in outs}

FailOutcomes(impl, st, c, x) == StrictOrKF30(c,
    CASE c.op \in {"openclose", "create"} -> FailOpenClose(impl, st, c, x)
      [] c.op \in {"subwrite", "submkdir"} -> FailSubThen(impl, st, c, x)
      [] c.op = "writefile" -> FailWriteFile(impl, st, c, x)
      [] c.op = "readfile"  -> FailReadFile(impl, st, c, x)
      [] c.op = "readdir"   -> FailReadDir(impl, st, c, x)
      [] c.op = "mkdirtemp" -> FailMkdirTemp(impl, st, c, x)
      [] c.op = "createtemp" -> FailCreateTemp(impl, st, c, x)
      [] c.op = "setumask"  -> {FOut(o, <<>>, x) : o \in Outcomes(impl, st, c)}
      [] OTHER -> FailSingle(impl, st, c, x), x)

\* the read-only failure function: as RoFS, the base can never change
FailRoOutcomes(impl, st, c) ==
    IF c.op \in RoMutatingNs \ {"create", "writefile", "mkdirtemp"} THEN Refused(st)
    ELSE IF c.op \in {"create", "writefile"} THEN Refused(st)
    ELSE IF c.op = "mkdirtemp" THEN Refused(st)
    ELSE IF c.op \in {"open", "openclose"} THEN
        (IF c.flag # <<"RDONLY">> THEN Refused(st) ELSE Outcomes(impl, st, c))
    ELSE IF c.op \in RoMutatingH THEN
        (IF ~ValidH(st, c) THEN {Strict(Fail("NOHANDLE", st))} ELSE Refused(st) \cup {Strict(Fail("CLOSED", st))})
    ELSE IF c.op \in {"subwrite", "submkdir"} THEN SubThenMutate(impl, st, c)
    ELSE Outcomes(impl, st, c)

(***************************************************************************)
(* BasePathFS (C10): a chroot at directory B of the base.  Through the     *)
(* wrapper a path is interpreted in the VIRTUAL namespace whose root is B: *)
(* an absolute path is cleaned (its ".." elements stop at the virtual      *)
(* root) and prefixed with B; a relative path is taken from the virtual    *)
(* working directory (the base's working directory seen from B; "/" when   *)
(* the base's lies outside B).  The call then has the outcome and effect   *)
(* of the translated call on the base, so nothing outside B can be read,   *)
(* created, changed or removed, and every path handed back is virtual.     *)
(* (The universe has no symbolic links: BasePathFS does not advertise      *)
(* them.)                                                                  *)
(***************************************************************************)
BaseDir == <<"w", "B">>
IsPrefixSeq(p, q) == Len(p) <= Len(q) /\ SubSeq(q, 1, Len(p)) = p

\* the virtual working directory, as names below B
VCwd(st) == IF IsPrefixSeq(BaseDir, st.cwdn) THEN SubSeq(st.cwdn, Len(BaseDir) + 1, Len(st.cwdn)) ELSE <<>>

ToBase(st, p) ==
    IF IsEmptyPath(p) THEN [abs |-> TRUE, parts |-> BaseDir]      \* "" names the virtual root (ToBasePath)
    ELSE [abs |-> TRUE, parts |-> BaseDir \o LexCleanAcc(TRUE, <<>>, IF p.abs THEN p.parts ELSE VCwd(st) \o p.parts)]

\* results that are paths come back in the virtual namespace
ToVirtual(path) ==
    IF path.abs /\ IsPrefixSeq(BaseDir, path.parts)
    THEN [abs |-> TRUE, parts |-> SubSeq(path.parts, Len(BaseDir) + 1, Len(path.parts))] ELSE path

BpTranslate(st, c) ==
    [c EXCEPT !.p = IF c.op \in HOps \/ c.op = "getwd" THEN @ ELSE ToBase(st, @),
              !.q = IF c.op \in {"rename", "link"} THEN ToBase(st, @) ELSE @]

\* Sub(dir) through the wrapper, then a mutator through the file system it hands out: the view is rooted at B + dir
BpSubThen(impl, st, c) ==
    LET tp == ToBase(st, c.p)
        r == Res(st, tp, TRUE)
        inner == [c EXCEPT !.op = IF c.op = "subwrite" THEN "writefile" ELSE "mkdir",
                           !.p = [abs |-> TRUE, parts |-> tp.parts \o c.q.parts], !.perm = IF c.op = "subwrite" THEN 420 ELSE 493] IN
    IF impl = "orefafs" THEN Refused(st)
    ELSE IF r.err # "ok" THEN {Strict(Fail(r.err, st))}
    ELSE IF r.id = 0 THEN {Strict(Fail("ENOENT", st))}
    ELSE IF ~IsDir(st, r.id) THEN {Strict(Fail("ENOTDIR", st))}
    ELSE Outcomes(impl, st, inner)

BpStrict(impl, st, c) ==
    IF c.op \in {"symlink", "readlink", "evalsymlinks"} THEN Refused(st)      \* no symbolic links through BasePathFS
    ELSE IF c.op \in {"subwrite", "submkdir"} THEN BpSubThen(impl, st, c)
    ELSE IF c.op = "glob" THEN {Strict(GlobK(st, BpTranslate(st, c), Len(BaseDir)))}
    ELSE IF c.op = "walk" THEN {Strict(WalkDirK(st, BpTranslate(st, c), Len(BaseDir)))}
    ELSE {[o EXCEPT !.res.path = ToVirtual(@)] : o \in Outcomes(impl, st, BpTranslate(st, c))}

(* KF31  BasePathFS hands a RELATIVE path to the base file system untranslated: it is resolved against the
         base's own working directory - the base's, not B, until Chdir is called through the wrapper - and
         its ".." elements can leave B (WriteFile("evil") on a fresh wrapper writes next to B; after
         Chdir("/a"), ReadFile("../../s") reads outside B).  When such a call fails, translating the error
         (whose path is the relative name) panics; Getwd panics while the base's working directory is outside B. *)
IsRel(p) == ~p.abs /\ p.parts # <<>>
UsesRel(c) == (c.op \notin HOps /\ c.op # "getwd" /\ IsRel(c.p)) \/ (c.op \in {"rename", "link"} /\ IsRel(c.q))
BpRaw(st, c) == [c EXCEPT !.p = IF c.op \in HOps \/ c.op = "getwd" \/ IsRel(@) THEN @ ELSE ToBase(st, @),
                          !.q = IF c.op \in {"rename", "link"} /\ ~IsRel(@) THEN ToBase(st, @) ELSE @]
Panics(st) == [res |-> [R0 EXCEPT !.err = "PANIC"], st |-> st, kf |-> "KF31", inv |-> "any", skip |-> TRUE]
KF31(impl, st, c) ==
    IF "KF31" \notin OpenKF THEN {}
    ELSE IF c.op = "getwd" THEN (IF IsPrefixSeq(BaseDir, st.cwdn) THEN {} ELSE {Panics(st)})
    ELSE IF c.op = "glob" /\ IsRel(c.p) THEN
        \* the matches of the untranslated pattern are relative names: translating the first one panics
        (IF Glob(st, c).res.names # <<>> THEN {Panics(st)} ELSE {})
    ELSE IF ~UsesRel(c) \/ c.op \in {"symlink", "readlink", "evalsymlinks", "glob", "walk"} THEN {}
    ELSE UNION {IF o.res.err \notin {"ok", "EOF"} THEN {Panics(st)}
                \* CreateTemp succeeds in the base, then translating the (relative) name of the new file panics
                ELSE IF c.op = "createtemp" THEN {Panics(o.st)}
                ELSE {[o EXCEPT !.kf = "KF31", !.res.path = ToVirtual(@)]}
                : o \in Outcomes(impl, st, CleanCall(BpRaw(st, c)))}

BpOutcomes(impl, st, c) == BpStrict(impl, st, c) \cup KF31(impl, st, c)

\* what lies outside B in the base
Outside(st) == {e \in Proj(st) : ~IsPrefixSeq(BaseDir, e.p)}

(***************************************************************************)
(* Sub views (C11): MemFS.Sub(dir) is a view of the SAME tree rooted at    *)
(* dir with its OWN working directory, user and umask (copied from the     *)
(* parent when the view is made).  A call through the view on a path p     *)
(* behaves as the parent's call on dir + p; setting the view's working     *)
(* directory or umask never changes the parent's.  The view state is the   *)
(* wrapper state x = [dir, vcwd, umask].                                   *)
(***************************************************************************)
ToBaseD(bd, vcwd, p) ==
    IF IsEmptyPath(p) THEN p
    ELSE [abs |-> TRUE, parts |-> bd \o LexCleanAcc(TRUE, <<>>, IF p.abs THEN p.parts ELSE vcwd \o p.parts)]
ToVirtualD(bd, path) ==
    IF path.abs /\ IsPrefixSeq(bd, path.parts)
    THEN [abs |-> TRUE, parts |-> SubSeq(path.parts, Len(bd) + 1, Len(path.parts))] ELSE path

SubTranslate(x, c) ==
    [c EXCEPT !.p = IF c.op \in HOps \/ c.op = "getwd" THEN @ ELSE ToBaseD(x.dir, x.vcwd, @),
              !.q = IF c.op \in {"rename", "link"} THEN ToBaseD(x.dir, x.vcwd, @) ELSE @]

SubX(o, x) == [res |-> o.res, st |-> o.st, kf |-> o.kf, inv |-> o.inv, skip |-> o.skip, cons |-> <<>>, x |-> x]

SubOutcomes(impl, st, c, x) ==
    IF c.op = "setumask" THEN {SubX(Strict(Ok(st)), [x EXCEPT !.umask = And(c.perm, 511)])}
    ELSE IF c.op = "getwd" THEN {SubX(Strict(Ret([R0 EXCEPT !.path = [abs |-> TRUE, parts |-> x.vcwd]], st)), x)}
    ELSE IF c.op = "chdir" THEN
        {IF o.res.err = "ok"
         THEN SubX([o EXCEPT !.st = [@ EXCEPT !.cwd = st.cwd, !.cwdn = st.cwdn]],
                   [x EXCEPT !.vcwd = SubSeq(o.st.cwdn, Len(x.dir) + 1, Len(o.st.cwdn))])
         ELSE SubX(o, x)
         : o \in Outcomes(impl, st, SubTranslate(x, c))}
    ELSE IF c.op = "glob" THEN
        {SubX(Strict(GlobK(st, SubTranslate(x, c), IF c.p.abs THEN Len(x.dir) ELSE 100 + Len(x.dir) + Len(x.vcwd))), x)}
    ELSE IF c.op = "walk" THEN {SubX(Strict(WalkDirK(st, SubTranslate(x, c), Len(x.dir))), x)}
    ELSE IF c.op \in {"subwrite", "submkdir"} THEN
        \* a view of a view: rooted at the translated directory, with a copy of this view's umask
        LET tp == ToBaseD(x.dir, x.vcwd, c.p)
            r == Res(st, tp, TRUE)
            inner == [c EXCEPT !.op = IF c.op = "subwrite" THEN "writefile" ELSE "mkdir",
                               !.p = [abs |-> TRUE, parts |-> tp.parts \o c.q.parts], !.perm = IF c.op = "subwrite" THEN 420 ELSE 493] IN
        IF r.err # "ok" THEN {SubX(Strict(Fail(r.err, st)), x)}
        ELSE IF r.id = 0 THEN {SubX(Strict(Fail("ENOENT", st)), x)}
        ELSE IF ~IsDir(st, r.id) THEN {SubX(Strict(Fail("ENOTDIR", st)), x)}
        ELSE {SubX([o EXCEPT !.st = [@ EXCEPT !.umask = st.umask]], x) : o \in Outcomes(impl, [st EXCEPT !.umask = x.umask], inner)}
    ELSE \* every other call: the parent's call on the translated path under the view's umask
        {SubX([o EXCEPT !.st = [@ EXCEPT !.umask = st.umask], !.res.path = ToVirtualD(x.dir, @)], x)
         : o \in Outcomes(impl, [st EXCEPT !.umask = x.umask], SubTranslate(x, c))}

(* KF32  Through a Sub view, Remove, RemoveAll and Rename of the view's own root directory answer EINVAL
         (RemoveAll after emptying it) - the view's root is treated like the root of a file system - where
         the parent's call on dir itself would remove or move the directory. *)
KF32(impl, st, c, x) ==
    LET t == SubTranslate(x, c) IN
    IF "KF32" \in OpenKF /\ c.op \in {"remove", "removeall", "rename"} /\ t.p.parts = x.dir /\ x.dir # <<>> THEN
        IF c.op = "removeall" THEN
            LET r == Res(st, t.p, FALSE)
                RECURSIVE Each(_, _)
                Each(s, todo) == IF todo = {} THEN s
                                 ELSE LET n == CHOOSE y \in todo : TRUE IN Each(RemoveTree(s, r.id, n, 8).st, todo \ {n}) IN
            \* (the view's directory is already gone: nothing to empty, the same answer)
            IF r.err = "ok" /\ r.id = 0
            THEN {[res |-> [R0 EXCEPT !.err = "EINVAL"], st |-> st, kf |-> "KF32", inv |-> "ok", skip |-> FALSE, cons |-> <<>>, x |-> x]}
            ELSE IF r.err = "ok" /\ IsDir(st, r.id)
            THEN {[res |-> [R0 EXCEPT !.err = "EINVAL"], st |-> Gc(Each(st, DOMAIN st.ino[r.id].ent)), kf |-> "KF32",
                   inv |-> "ok", skip |-> FALSE, cons |-> <<>>, x |-> x]}
            ELSE {}
        ELSE IF c.op = "rename" /\ Res(st, t.q, FALSE).err = "ok" /\ Res(st, t.q, FALSE).id # 0 THEN {}
        ELSE {[res |-> [R0 EXCEPT !.err = "EINVAL"], st |-> st, kf |-> "KF32", inv |-> "ok", skip |-> FALSE, cons |-> <<>>, x |-> x]}
    ELSE {}

OutsideD(bd, st) == {e \in Proj(st) : ~IsPrefixSeq(bd, e.p)}

WithX(o, x) == [res |-> o.res, st |-> o.st, kf |-> o.kf, inv |-> o.inv, skip |-> o.skip, cons |-> <<>>, x |-> x]

\* x is the wrapper's own state (FailFS: plan and counters); outcomes carry cons and the new x
\* (a call with v = 9 is made on the PARENT of a view, not through the view: C11's interleavings)
WOutcomes(w0, impl, st, c, x) ==
    LET w == IF w0 = "sub" /\ c.v = 9 THEN "none" ELSE w0 IN
    CASE w = "none"   -> {WithX(o, x) : o \in Outcomes(impl, st, c)}
      [] w = "rofs"   -> {WithX(o, x) : o \in RoOutcomes(impl, st, c)}
      [] w = "failro" -> {WithX(o, x) : o \in FailRoOutcomes(impl, st, c)}
      [] w = "failfs" -> FailOutcomes(impl, st, c, x)
      [] w = "basepath" -> {WithX(o, x) : o \in BpOutcomes(impl, st, c)}
      [] w = "sub" ->
            IF c.v = 8 /\ "dir2" \in DOMAIN x /\ x.dir2 # <<"none">>
            THEN \* the call goes through the SECOND view of the same parent: the same rules with that view's own
                 \* directory, working directory and umask; the first view's state is untouched
                 LET x2 == [x EXCEPT !.dir = x.dir2, !.vcwd = x.vcwd2, !.umask = x.umask2] IN
                 {[o EXCEPT !.x = [x EXCEPT !.vcwd2 = o.x.vcwd, !.umask2 = o.x.umask]]
                    : o \in SubOutcomes(impl, st, c, x2) \cup KF32(impl, st, c, x2)}
            ELSE SubOutcomes(impl, st, c, x) \cup KF32(impl, st, c, x)

\* the tree (and the modification times, carried separately) never change through a read-only wrapper
BaseUntouched(w, st, o) == w \in {"rofs", "failro"} => Proj(o.st) = Proj(st)
=============================================================================
