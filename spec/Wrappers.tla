------------------------------- MODULE Wrappers -------------------------------
(***************************************************************************)
(* The wrapper file systems as functions of the base file system's         *)
(* transition relation (Outcomes of FsDev: strict semantics plus the open  *)
(* deviations of the base implementation).                                 *)
(*   rofs     : RoFS - read-only view (C09)                                *)
(* A wrapper outcome carries the same fields as a base outcome.            *)
(***************************************************************************)
EXTENDS FsDev

PermErrs == {"EACCES", "EPERM"}

RoMutatingNs == {"mkdir", "mkdirall", "create", "writefile", "createtemp", "mkdirtemp", "remove", "removeall",
                 "rename", "link", "symlink", "truncate", "chmod", "chown", "lchown", "chtimes"}
RoMutatingH == {"write", "writestring", "writeat", "ftruncate", "fchmod", "fchown", "fsync"}
RoForwarded == {"stat", "lstat", "readlink", "readdir", "readfile", "evalsymlinks", "getwd", "chdir", "setumask",
                "read", "readat", "seek", "fstat", "fchdir", "close", "freaddir", "freaddirnames"}

Refused(st) == {Strict(Fail(e, st)) : e \in PermErrs}

\* Sub(dir) followed by a mutator through the returned file system (c.op = "subwrite" / "submkdir")
SubThenMutate(impl, st, c) ==
    LET r == Res(st, c.p, TRUE) IN
    IF impl = "orefafs" THEN Refused(st)
    ELSE IF r.err # "ok" THEN {Strict(Fail(r.err, st))}
    ELSE IF r.id = 0 THEN {Strict(Fail("ENOENT", st))}
    ELSE IF ~IsDir(st, r.id) THEN {Strict(Fail("ENOTDIR", st))}
    ELSE Refused(st)

\* C09: every mutating call is refused with a permission-class error and changes nothing;
\* every read-only call returns what the base returns; files handed out are read-only too.
RoOutcomes(impl, st, c) ==
    IF c.op \in RoMutatingNs THEN Refused(st)
    ELSE IF c.op \in {"open", "openclose"} THEN
        (IF c.flag # <<"RDONLY">> THEN Refused(st) ELSE Outcomes(impl, st, c))
    ELSE IF c.op \in RoMutatingH THEN
        (IF ~ValidH(st, c) THEN {Strict(Fail("NOHANDLE", st))} ELSE Refused(st) \cup {Strict(Fail("CLOSED", st))})
    ELSE IF c.op \in {"subwrite", "submkdir"} THEN SubThenMutate(impl, st, c)
    ELSE Outcomes(impl, st, c)

WOutcomes(w, impl, st, c) ==
    CASE w = "none" -> Outcomes(impl, st, c)
      [] w = "rofs" -> RoOutcomes(impl, st, c)

\* the tree (and the modification times, carried separately) never change through a read-only wrapper
BaseUntouched(w, st, o) == w = "rofs" => Proj(o.st) = Proj(st)
=============================================================================
