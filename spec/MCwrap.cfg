CONSTANTS
  Names <- MCNames
  NameOrder <- MCNameOrder
  BuildLen <- MCBuildLen
  WrapLen <- MCWrapLen
  Kind <- MCKind
SPECIFICATION Spec
VIEW View
PROPERTY RoNeverChangesBase
PROPERTY RoRefusesMutators
PROPERTY InjectedIsReturned
PROPERTY BpConfines
PROPERTY SubConfines
CHECK_DEADLOCK FALSE
