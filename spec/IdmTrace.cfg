SPECIFICATION TraceSpec
POSTCONDITION TraceDone
CHECK_DEADLOCK FALSE
