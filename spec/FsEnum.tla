------------------------------- MODULE FsEnum -------------------------------
(***************************************************************************)
(* Enumeration calls (C14) on the abstract file system: Glob, WalkDir with *)
(* a callback policy, and the existence helpers, as pure operators.        *)
(* Names of the universe are single characters, so a name is the one-      *)
(* element character sequence <<n>>; a pattern segment is looked up in     *)
(* SegTokens, which gives its token sequence.                              *)
(***************************************************************************)
EXTENDS FsHandles

\* pattern segments the generators use, with their tokens
SegTokens ==
    ("*" :> <<"*">>) @@ ("?" :> <<"?">>) @@ ("a" :> <<"a">>) @@ ("b" :> <<"b">>) @@ ("c" :> <<"c">>)
    @@ ("a*" :> <<"a", "*">>) @@ ("*b" :> <<"*", "b">>) @@ ("??" :> <<"?", "?">>) @@ ("[ab]" :> <<"[ab]">>)
    @@ ("[^a]" :> <<"[^a]">>) @@ ("\\a" :> <<"\\a">>) @@ ("w" :> <<"w">>) @@ ("*a*" :> <<"*", "a", "*">>)
\* segments that are no well-formed pattern (an unfinished class): Glob checks the whole pattern before it looks at the tree
BadSegs == {"[a", "[", "a["}
IsMetaSeg(seg) == seg \in {"*", "?", "a*", "*b", "??", "[ab]", "[^a]", "\\a", "*a*"} \cup BadSegs

\* a pattern token against one character
TokMatch(t, ch) ==
    CASE t = "?" -> TRUE
      [] t = "[ab]" -> ch \in {"a", "b"}
      [] t = "[^a]" -> ch # "a"
      [] t = "\\a" -> ch = "a"
      [] OTHER -> t = ch

\* token sequence against a character sequence ('*' = any run of characters; a name holds no separator)
RECURSIVE SeqMatch(_, _)
SeqMatch(ts, cs) ==
    IF ts = <<>> THEN cs = <<>>
    ELSE IF Head(ts) = "*" THEN \E k \in 0..Len(cs) : SeqMatch(Tail(ts), SubSeq(cs, k + 1, Len(cs)))
    ELSE cs # <<>> /\ TokMatch(Head(ts), Head(cs)) /\ SeqMatch(Tail(ts), Tail(cs))

\* names are single characters, except the temporary names ("~k"), which no pattern of the universe matches
NameChars(n) == IF n \in {"a", "b", "c", "d", "e", "w", "s", "f", "u", "t", "B"} THEN <<n>> ELSE <<n, "#">>
SegMatches(seg, n) == IF seg \in DOMAIN SegTokens THEN SeqMatch(SegTokens[seg], NameChars(n)) ELSE seg = n

\* names of a set in listing order
RECURSIVE SortedNames(_)
SortedNames(S) ==
    IF S = {} THEN <<>>
    ELSE LET m == CHOOSE x \in S : \A y \in S : RankOf(x) <= RankOf(y) IN <<m>> \o SortedNames(S \ {m})

RECURSIVE JoinStr(_)
JoinStr(ps) == IF ps = <<>> THEN "" ELSE IF Len(ps) = 1 THEN ps[1] ELSE ps[1] \o "/" \o JoinStr(Tail(ps))
PathStr(abs, ps) == IF abs THEN "/" \o JoinStr(ps) ELSE IF ps = <<>> THEN "." ELSE JoinStr(ps)
\* printing below a chroot-like wrapper: the first k components (the base path) are not shown
\* (k >= 100: the pattern was relative to a virtual working directory - print relative, without the first k-100 components)
PathStrK(abs, ps, k) ==
    IF k >= 100 THEN PathStr(FALSE, SubSeq(ps, k - 100 + 1, Len(ps)))
    ELSE PathStr(abs, IF abs THEN SubSeq(ps, k + 1, Len(ps)) ELSE ps)

(***************************************************************************)
(* filepath.Glob: segment-wise matching against the listings of the        *)
(* directories reached (following links for the directories in between),   *)
(* results in lexical order; a pattern without meta characters is a plain   *)
(* Lstat.  prefix: the components matched so far (as they will be printed).*)
(***************************************************************************)
StarSeg(seg) == seg \in {"*", "a*", "*b", "*a*"}
HasMeta(segs) == \E i \in DOMAIN segs : IsMetaSeg(segs[i])

RECURSIVE GlobR(_, _, _, _, _, _)
GlobR(st, abs, prefix, segs, fuel, k) ==
    LET seg == Head(segs)
        here == Res(st, [abs |-> abs, parts |-> IF prefix = <<>> /\ ~abs THEN <<".">> ELSE prefix], TRUE)
        names == IF here.err = "ok" /\ IsDir(st, here.id) /\ May(st, here.id, 4)
                 THEN SortedNames({n \in DOMAIN st.ino[here.id].ent : SegMatches(seg, n)}) ELSE <<>>
        RECURSIVE Each(_)
        Each(ns) ==
            IF ns = <<>> THEN <<>>
            ELSE LET p == Append(prefix, Head(ns)) IN
                 (IF Len(segs) = 1 THEN <<PathStrK(abs, p, k)>>
                  ELSE IF fuel = 0 THEN <<>> ELSE GlobR(st, abs, p, Tail(segs), fuel - 1, k)) \o Each(Tail(ns)) IN
    IF ~IsMetaSeg(seg) /\ Len(segs) > 1 THEN
        \* a literal directory segment is used as a path, not matched against a listing
        GlobR(st, abs, Append(prefix, seg), Tail(segs), fuel, k)
    ELSE IF ~IsMetaSeg(seg) THEN
        \* the last segment is literal but something before it was not: matched against the listing like any other
        Each(names)
    ELSE Each(names)

GlobK(st, c, k) ==
    LET segs == c.p.parts
        bad == {i \in DOMAIN segs : segs[i] \in BadSegs} IN
    IF bad # {} THEN
        \* filepath.Match finds a malformed class only in a chunk it evaluates: Glob's initial check of the whole pattern
        \* evaluates the first chunk (everything before the first '*'); a later chunk is evaluated when the segment is
        \* matched against the first entry of a directory the part before it has reached
        LET i == CHOOSE x \in bad : \A y \in bad : x <= y IN
        IF \A j \in 1..(i - 1) : ~StarSeg(segs[j]) THEN Ret([R0 EXCEPT !.err = "EBADPAT"], st)
        ELSE IF GlobR(st, c.p.abs, <<>>, SubSeq(segs, 1, i - 1) \o <<"*">>, 6, k) # <<>> THEN Ret([R0 EXCEPT !.err = "EBADPAT"], st)
        ELSE Ret(R0, st)
    ELSE IF ~HasMeta(segs) THEN
        LET r == Res(st, c.p, FALSE) IN
        Ret([R0 EXCEPT !.names = IF r.err = "ok" /\ r.id # 0 THEN <<PathStrK(c.p.abs, segs, k)>> ELSE <<>>], st)
    ELSE LET ms == GlobR(st, c.p.abs, <<>>, segs, 6, k) IN Ret([R0 EXCEPT !.names = ms, !.n = Len(ms)], st)
Glob(st, c) == GlobK(st, c, 0)

(***************************************************************************)
(* filepath.WalkDir with a callback that returns SkipDir, SkipAll or an    *)
(* error at visit number c.n (0 = never) and nil otherwise (it returns the *)
(* error it is handed).  Result: the paths visited, in order, and the      *)
(* error WalkDir returns.  Symbolic links are not followed.                *)
(***************************************************************************)
WAction(c) == IF c.flag = <<>> THEN "none" ELSE c.flag[1]

\* walk state: [seen : sequence of visited paths, stop : "" | "skipdir" | "skipall" | "err"]
RECURSIVE WalkR(_, _, _, _, _, _, _)
WalkR(st, c, id, path, acc, fuel, k) ==
    LET seen1 == Append(acc.seen, PathStrK(TRUE, path, k))
        hit == c.n # 0 /\ Len(seen1) = c.n
        act == IF hit THEN WAction(c) ELSE "none"
        isdir == IsDir(st, id) IN
    IF act = "SkipAll" THEN [seen |-> seen1, stop |-> "skipall"]
    ELSE IF act = "Err" THEN [seen |-> seen1, stop |-> "err"]
    ELSE IF act = "SkipDir" THEN
        (IF isdir THEN [seen |-> seen1, stop |-> ""] ELSE [seen |-> seen1, stop |-> "skipdir"])
    ELSE IF ~isdir \/ fuel = 0 THEN [seen |-> seen1, stop |-> ""]
    \* a directory that cannot be listed (search permission on the way to it, read permission on it) is reported to the
    \* callback a second time, with the error; the callback of the universe hands that error back, which ends the walk
    ELSE IF Res(st, [abs |-> TRUE, parts |-> path], TRUE).err # "ok" \/ ~May(st, id, 4)
         THEN (IF c.flag = <<"ErrSkip">>
               \* (the callback that answers SkipDir to an error: the directory is skipped, the walk goes on)
               THEN [seen |-> Append(seen1, PathStrK(TRUE, path, k)), stop |-> ""]
               ELSE [seen |-> Append(seen1, PathStrK(TRUE, path, k)), stop |-> "eacces"])
    ELSE
    LET RECURSIVE Kids(_, _)
        Kids(ns, a) ==
            IF ns = <<>> THEN a
            ELSE LET r == WalkR(st, c, st.ino[id].ent[Head(ns)], Append(path, Head(ns)), a, fuel - 1, k) IN
                 IF r.stop = "skipdir" THEN [seen |-> r.seen, stop |-> ""]      \* skip the remaining siblings
                 ELSE IF r.stop # "" THEN r
                 ELSE Kids(Tail(ns), r) IN
    Kids(SortedNames(DOMAIN st.ino[id].ent), [seen |-> seen1, stop |-> ""])

WalkDirK(st, c, k) ==
    LET r == Res(st, c.p, FALSE) IN
    IF r.err # "ok" \/ r.id = 0 THEN
        \* the callback is told about the failing Lstat of the root and returns that error
        \* (SkipDir in answer to it ends the walk without an error)
        Ret([R0 EXCEPT !.err = IF c.flag = <<"ErrSkip">> THEN "ok" ELSE IF r.err # "ok" THEN r.err ELSE "ENOENT",
                       !.names = <<PathStrK(c.p.abs, c.p.parts, k)>>, !.n = IF c.flag = <<"ErrSkip">> THEN 1 ELSE 0], st)
    ELSE LET w == WalkR(st, c, r.id, c.p.parts, [seen |-> <<>>, stop |-> ""], 8, k) IN
         Ret([R0 EXCEPT !.err = IF w.stop = "err" THEN "ECALLBACK" ELSE IF w.stop = "eacces" THEN "EACCES" ELSE "ok",
                        !.names = w.seen, !.n = IF w.stop = "eacces" THEN 0 ELSE Len(w.seen)], st)

WalkDir(st, c) == WalkDirK(st, c, 0)

(***************************************************************************)
(* Exists, DirExists, IsDir, IsEmpty answer what Stat and ReadDir imply.   *)
(* Result in n: 1 = true, 0 = false.                                       *)
(***************************************************************************)
Helper(st, c) ==
    LET s == Stat(st, c).res
        info == s.info
        yes == [R0 EXCEPT !.n = 1]   no == R0
        fail(e) == [R0 EXCEPT !.err = e] IN
    CASE c.op = "exists"    -> Ret(IF s.err = "ok" THEN yes ELSE IF s.err = "ENOENT" THEN no ELSE fail(s.err), st)
      [] c.op = "direxists" -> Ret(IF s.err = "ok" THEN (IF info.k = "dir" THEN yes ELSE no)
                                   ELSE IF s.err = "ENOENT" THEN no ELSE fail(s.err), st)
      [] c.op = "isdir"     -> Ret(IF s.err = "ok" THEN (IF info.k = "dir" THEN yes ELSE no) ELSE fail(s.err), st)
      [] c.op = "isempty"   ->
            IF s.err # "ok" THEN Ret(fail("ENOEXIST"), st)        \* "path does not exist", whatever Stat said
            ELSE IF info.k = "dir" THEN
                LET rd == ReadDir(st, c).res IN
                Ret(IF rd.err # "ok" THEN fail(rd.err) ELSE IF rd.n = 0 THEN yes ELSE no, st)
            ELSE Ret(IF info.sz = 0 THEN yes ELSE no, st)

EnumOps == {"glob", "walk", "exists", "direxists", "isdir", "isempty"}
EnumApply(st, c) ==
    CASE c.op = "glob" -> Glob(st, c)
      [] c.op = "walk" -> WalkDir(st, c)
      [] OTHER -> Helper(st, c)

\* the complete dispatcher
Apply(st, c) == IF c.op \in EnumOps THEN EnumApply(st, c) ELSE BaseApply(st, c)
AllStrictOutcomes(st, c) == IF c.op \in EnumOps THEN {EnumApply(st, c)} ELSE StrictOutcomes(st, c)
=============================================================================
