------------------------------ MODULE MemIdmConc ------------------------------
(***************************************************************************)
(* All interleavings of concurrent MemIdm calls at the granularity of the  *)
(* code's critical sections (AddUser = lookup under the group lock, then   *)
(* insertion under the user lock; every other call is one section).        *)
(* Checked: the map invariants in every reachable state, and at the end    *)
(* linearizability: results and final tables are those of some sequential  *)
(* order of the same calls.                                                *)
(***************************************************************************)
EXTENDS MemIdm

CONSTANTS Procs, GNames, UNames
VARIABLES s, s0, prog, pc, tmp, res
vars == <<s, s0, prog, pc, tmp, res>>

IC0 == [op |-> "", name |-> "", group |-> "", id |-> 0]
Calls ==
    {[IC0 EXCEPT !.op = "addgroup", !.name = n] : n \in GNames}
    \cup {[IC0 EXCEPT !.op = "delgroup", !.name = n] : n \in GNames}
    \cup {[IC0 EXCEPT !.op = "adduser", !.name = n, !.group = g] : n \in UNames, g \in GNames}
    \cup {[IC0 EXCEPT !.op = "deluser", !.name = n] : n \in UNames}
    \cup {[IC0 EXCEPT !.op = "lookupuser", !.name = n] : n \in UNames}
    \cup {[IC0 EXCEPT !.op = "lookupgroup", !.name = n] : n \in GNames}

\* initial states: the fresh manager, and one with a group and a user in it
Seeded ==
    LET a == AddGroup(IdmInit, [IC0 EXCEPT !.name = "g1"]).s
        b == AddUser(a, [IC0 EXCEPT !.name = "u1", !.group = "g1"]).s IN {IdmInit, a, b}

Init ==
    /\ s0 \in Seeded /\ s = s0
    /\ prog \in [Procs -> Calls]
    /\ pc = [p \in Procs |-> "start"]
    /\ tmp = [p \in Procs |-> -1]
    /\ res = [p \in Procs |-> IR0]

Step(p) ==
    LET c == prog[p] IN
    \/ /\ pc[p] = "start" /\ c.op = "adduser"
       /\ LET g == AddUserLookup(s, c) IN
          IF g = -1 THEN /\ res' = [res EXCEPT ![p] = [IR0 EXCEPT !.err = "ENOG"]]
                         /\ pc' = [pc EXCEPT ![p] = "done"] /\ UNCHANGED <<s, tmp>>
          ELSE /\ tmp' = [tmp EXCEPT ![p] = g] /\ pc' = [pc EXCEPT ![p] = "insert"] /\ UNCHANGED <<s, res>>
       /\ UNCHANGED <<s0, prog>>
    \/ /\ pc[p] = "insert"
       /\ LET o == AddUserInsert(s, c, tmp[p]) IN
          s' = o.s /\ res' = [res EXCEPT ![p] = o.res]
       /\ pc' = [pc EXCEPT ![p] = "done"] /\ UNCHANGED <<s0, prog, tmp>>
    \/ /\ pc[p] = "start" /\ c.op # "adduser"
       /\ LET o == IdmApply(s, c) IN
          s' = o.s /\ res' = [res EXCEPT ![p] = o.res]
       /\ pc' = [pc EXCEPT ![p] = "done"] /\ UNCHANGED <<s0, prog, tmp>>

Next == \E p \in Procs : Step(p)
Spec == Init /\ [][Next]_vars

AllDone == \A p \in Procs : pc[p] = "done"

\* sequential execution of the program in a given order of the processes
RECURSIVE SeqRun(_, _)
SeqRun(st, order) ==
    IF order = <<>> THEN [s |-> st, res |-> [p \in {} |-> IR0]]
    ELSE LET o == IdmApply(st, prog[Head(order)])
             rest == SeqRun(o.s, Tail(order)) IN
         [s |-> rest.s, res |-> (Head(order) :> o.res) @@ rest.res]

Orders == {q \in [1..Cardinality(Procs) -> Procs] : \A i, j \in DOMAIN q : i # j => q[i] # q[j]}

Linearizable ==
    AllDone => \E q \in Orders : LET r == SeqRun(s0, q) IN
                                 /\ \A p \in Procs : r.res[p] = res[p]
                                 /\ Tables(r.s) = Tables(s)

MapsAlwaysAgree == IdmInv(s)
=============================================================================
