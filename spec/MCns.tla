------------------------------- MODULE MCns -------------------------------
EXTENDS FsSpec
MCNames == IF "VERIF_NAMES" \in DOMAIN IOEnv /\ IOEnv.VERIF_NAMES = "3" THEN {"a", "b", "c"} ELSE {"a", "b"}
MCNameOrder == <<"B", "a", "b", "c", "d", "e", "f", "l1", "l2", "s", "t", "u", "w", "zz">>
MCMaxLen == IF "VERIF_MAXLEN" \in DOMAIN IOEnv THEN atoi(IOEnv.VERIF_MAXLEN) ELSE 2
MCProfile == IF "VERIF_PROFILE" \in DOMAIN IOEnv THEN IOEnv.VERIF_PROFILE ELSE "ns"
=============================================================================
