------------------------------- MODULE Volumes -------------------------------
(***************************************************************************)
(* Volume management of a Windows-typed MemFS (C17): a set of drive        *)
(* volumes, each with its own independent root directory; C: exists from   *)
(* the start.  A Linux-typed file system has no volumes: every volume call *)
(* is refused and the list is empty.                                       *)
(***************************************************************************)
EXTENDS Integers, Sequences, FiniteSets, TLC, Json, CSV, IOUtils

CONSTANTS MaxLen
VARIABLES os, vols, hist
vars == <<os, vols, hist>>

VolNames == {"C:", "D:", "E:"}
DirNames == {"x"}
\* vols : volume name -> set of top-level directory names
V0 == [op |-> "", vol |-> "", arg |-> ""]
\* the argument of VolumeAdd/VolumeDelete is a path; its volume name is what counts ("" when it has none)
Args == {[s |-> v, vol |-> v] : v \in VolNames} \cup {[s |-> "D:\\x", vol |-> "D:"], [s |-> "x", vol |-> ""], [s |-> "", vol |-> ""]}

VR0 == [err |-> "ok", list |-> {}, names |-> {}]
VApply(o, vs, c) ==
    IF o = "linux" THEN
        CASE c.op \in {"voladd", "voldel"} -> [res |-> [VR0 EXCEPT !.err = "EVOLWIN"], vols |-> vs]
          [] c.op = "vollist" -> [res |-> VR0, vols |-> vs]
          [] OTHER -> [res |-> [VR0 EXCEPT !.err = "SKIP"], vols |-> vs]
    ELSE
        CASE c.op = "voladd" ->
                IF c.vol = "" THEN [res |-> [VR0 EXCEPT !.err = "EVOLINVALID"], vols |-> vs]
                ELSE IF c.vol \in DOMAIN vs THEN [res |-> [VR0 EXCEPT !.err = "EVOLEXISTS"], vols |-> vs]
                ELSE [res |-> VR0, vols |-> (c.vol :> {}) @@ vs]
          [] c.op = "voldel" ->
                IF c.vol = "" \/ c.vol \notin DOMAIN vs THEN [res |-> [VR0 EXCEPT !.err = "EVOLINVALID"], vols |-> vs]
                ELSE [res |-> VR0, vols |-> [v \in (DOMAIN vs) \ {c.vol} |-> vs[v]]]
          [] c.op = "vollist" -> [res |-> [VR0 EXCEPT !.list = DOMAIN vs], vols |-> vs]
          [] c.op = "mkdir" ->      \* Mkdir(vol\arg)
                IF c.vol \notin DOMAIN vs THEN [res |-> [VR0 EXCEPT !.err = "FAIL"], vols |-> vs]
                ELSE IF c.arg \in vs[c.vol] THEN [res |-> [VR0 EXCEPT !.err = "FAIL"], vols |-> vs]
                ELSE [res |-> VR0, vols |-> [vs EXCEPT ![c.vol] = @ \cup {c.arg}]]
          [] c.op = "readdir" ->    \* ReadDir(vol\)
                IF c.vol \notin DOMAIN vs THEN [res |-> [VR0 EXCEPT !.err = "FAIL"], vols |-> vs]
                ELSE [res |-> [VR0 EXCEPT !.names = vs[c.vol]], vols |-> vs]

Calls == {[op |-> o, vol |-> a.vol, arg |-> a.s] : o \in {"voladd", "voldel"}, a \in Args}
         \cup {[op |-> "vollist", vol |-> "", arg |-> ""]}
         \cup {[op |-> "mkdir", vol |-> v, arg |-> d] : v \in VolNames, d \in DirNames}
         \cup {[op |-> "readdir", vol |-> v, arg |-> ""] : v \in VolNames}

EdgeFile == IF "VERIF_EDGES" \in DOMAIN IOEnv THEN IOEnv.VERIF_EDGES ELSE ""
Emit(rec) == IF EdgeFile = "" THEN TRUE ELSE CSVWrite("%1$s", <<ToJson(rec)>>, EdgeFile)

Init == os \in {"windows", "linux"} /\ vols = (IF os = "windows" THEN ("C:" :> {}) ELSE <<>>) /\ hist = <<>>
Next == /\ Len(hist) < MaxLen
        /\ \E c \in Calls : LET o == VApply(os, vols, c) IN
              /\ o.res.err # "SKIP"
              /\ vols' = o.vols /\ hist' = Append(hist, c) /\ os' = os
              /\ Emit([os |-> os, hist |-> hist, call |-> c, res |-> o.res,
                       all |-> {[vol |-> v, names |-> o.vols[v]] : v \in DOMAIN o.vols}])
Spec == Init /\ [][Next]_vars
View == <<os, vols, Len(hist)>>

\* volumes are independent: a call naming one volume never changes another
Independent == [][\A v \in (DOMAIN vols) \cap (DOMAIN vols') : (v # hist'[Len(hist')].vol) => vols'[v] = vols[v]]_vars
LinuxHasNoVolumes == os = "linux" => vols = <<>>
=============================================================================
