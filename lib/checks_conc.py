"""C06 (linearizability), C07 (every call returns) and C08 (no data race; completed effects are visible).

Recorded concurrent executions of the real code - enumerated by the deterministic scheduler (goroutines parked at
every lock acquisition through the verif hook, depth-first search over the schedules with a preemption bound) or
free running on all cores - are judged by TLC against the SEQUENTIAL TLA+ specification: Lin.tla searches a total
order of the calls that respects program order and real-time order and reproduces every result and the final
tree through Outcomes (strict semantics + open deviations of the catalogue)."""
import json, os, re, subprocess, time, collections
import nscheck, vlib, checks_wrap
from vlib import Infra, log


def P(p):
    return ("/" if p["abs"] else "") + "/".join(p["parts"])


def hbrief(h):
    return "; ".join("g%d %s %s%s -> %s" % (c["g"], c["call"]["op"], P(c["call"]["p"]),
                                             (" " + P(c["call"]["q"])) if c["call"]["op"] in ("rename", "link", "symlink") else "",
                                             c["res"]["err"]) for c in h["calls"])


def sig(h):
    return sorted("%s:%s" % (c["call"]["op"], c["res"]["err"]) for c in h["calls"])


def open_conc(pid, kind):
    return [f for f in vlib.load_findings()["findings"]
            if f["status"] == "open" and pid in f["properties"] and f.get("match", {}).get("kind") == kind]


def match_lin(h, kfs):
    s = collections.Counter(sig(h))
    for f in kfs:
        m = f["match"]
        if m["fs"] not in ("*", h["fs"]):
            continue
        for res in ([m["results"]] if "results" in m else m["any_of"]):
            if not (collections.Counter(res) - s):
                return f
    return None


def explore(sc, drive, target, bound, maxruns, triples, pairs2, seed, tag):
    procs = []
    n = vlib.NCPU
    for k in range(n):
        out = sc.path("hist-%s-%s-%d.ndjson" % (tag, target, k))
        procs.append((subprocess.Popen([drive, "sched", "-target", target, "-out", out, "-bound", str(bound), "-maxruns", str(maxruns),
                                        "-triples", str(triples), "-pairs2", str(pairs2), "-seed", str(seed),
                                        "-shard", str(k), "-nshard", str(n)],
                                       stdout=subprocess.PIPE, stderr=subprocess.PIPE, text=True), out))
    hs, st = [], collections.Counter()
    for p, out in procs:
        try:
            so, se = p.communicate(timeout=3000)
        except subprocess.TimeoutExpired:
            for q, _ in procs:
                q.kill()
            raise Infra("schedule exploration timed out on " + target)
        if p.returncode != 0:
            raise Infra("schedule exploration failed on %s: %s" % (target, se[-3000:]))
        st.update(json.loads(so.strip().splitlines()[-1]))
        hs += [json.loads(l) for l in open(out)]
    for i, h in enumerate(hs):
        h["id"] = i + 1
    return hs, dict(st)


def stress(sc, drive, target, nproc, progs, length, seed, tag, race=False):
    """Free-running programs in nproc processes. Returns (small histories, stats, stderr texts)."""
    procs = []
    for k in range(nproc):
        out = sc.path("stress-%s-%s-%d.ndjson" % (tag, target, k))
        env = dict(os.environ, GORACE="halt_on_error=0 exitcode=0 history_size=5")
        procs.append((subprocess.Popen([drive, "stress", "-target", target, "-out", out, "-progs", str(progs), "-len", str(length),
                                        "-seed", str(seed * 1000 + k)], stdout=subprocess.PIPE, stderr=subprocess.PIPE, text=True, env=env), out))
    hs, st, errs = [], collections.Counter(), []
    msgs = {"panic_msgs": [], "inv_msgs": []}
    for p, out in procs:
        try:
            so, se = p.communicate(timeout=3000)
        except subprocess.TimeoutExpired:
            for q, _ in procs:
                q.kill()
            raise Infra("stress run timed out on " + target)
        if "fatal error:" in se:
            errs.append(se)
            continue
        if p.returncode != 0:
            raise Infra("stress run failed on %s: %s" % (target, se[-3000:]))
        d = json.loads(so.strip().splitlines()[-1])
        for k2 in ("programs", "calls", "panics", "hangs", "bad_inv", "histories"):
            st[k2] += d[k2]
        for k2 in msgs:
            msgs[k2] += d[k2]
        errs.append(se)
        hs += [json.loads(l) for l in open(out)]
    for i, h in enumerate(hs):
        h["id"] = 1000000 + i + 1
    return hs, dict(st, **msgs), errs


def judge_lin(sc, target, hists, tag):
    """Lin.tla over batches of histories (parallel TLC runs). Returns the set of ids judged non-linearizable."""
    hists = [h for h in hists if not h["deadlock"] and not h["panic"]]
    if not hists:
        return set(), 0.0
    nb = max(1, min(8, (len(hists) + 199) // 200))
    batches = [hists[i::nb] for i in range(nb)]
    procs = []
    t0 = time.time()
    for k, b in enumerate(batches):
        wd = sc.path("lin-%s-%s-%d" % (tag, target, k))
        os.makedirs(wd, exist_ok=True)
        hf = os.path.join(wd, "h.ndjson")
        with open(hf, "w") as f:
            for h in b:
                f.write(json.dumps({k: ([] if v is None else v) for k, v in h.items()}, separators=(",", ":")) + "\n")
        procs.append((wd, hf, b))
    bad = set()
    # run_tlc_in is synchronous: use threads for parallelism
    import concurrent.futures
    def one(x):
        wd, hf, b = x
        r = vlib.run_tlc_in(wd, "MClin", "Lin.cfg", env={"VERIF_HIST": hf, "VERIF_IMPL": target}, workers=1, timeout=2400, heap="3g")
        m = re.search(r'<<\s*"NONLIN",\s*\{(.*?)\}\s*>>', r["out"], re.S)
        n = re.search(r'<<\s*"HISTORIES",\s*(\d+)\s*>>', r["out"])
        if not m or not n or int(n.group(1)) != len(b):
            raise Infra("the linearizability judge gave no verdict:\n" + r["out"][-3000:])
        return {int(v) for v in re.findall(r"\d+", m.group(1))}
    with concurrent.futures.ThreadPoolExecutor(max_workers=nb) as ex:
        for s in ex.map(one, procs):
            bad |= s
    return bad, time.time() - t0


RACE_RE = re.compile(r"\n(?=(?:Previous )?(?:[Rr]ead|[Ww]rite|atomic [rw]\w+) at |Goroutine )")


def parse_races(text):
    """Race detector reports -> list of ((kind, func, file:line), (kind, func, file:line)) with the top /repo frames."""
    out = []
    for blk in text.split("WARNING: DATA RACE")[1:]:
        blk = blk.split("==================")[0]
        acc = []
        for part in RACE_RE.split(blk):
            m = re.match(r"\s*(Previous )?(\w[\w ]*?) at 0x\w+ by (?:goroutine \d+|main goroutine)", part)
            if not m:
                continue
            fr = re.findall(r"\n  (\S+)\(\)\n\s+(/repo/\S+):(\d+)", part)
            top = fr[0] if fr else ("?", "?", "0")
            acc.append((m.group(2).lower(), top[0].split("/")[-1], top[1].replace("/repo/", "") + ":" + top[2]))
        if len(acc) >= 2:
            out.append(tuple(sorted(acc[:2])))
    return out


def sched_params(tier):
    # (preemption bound, executions per program at most, sampled triples, sampled two-call pairs)
    return (2, 300, 12, 12) if tier == "quick" else (3, 4000, 300, 300)


def check_c06(tier, seed):
    t0 = time.time()
    sc = vlib.Scratch("C06")
    cov = {"samples": [], "tlc_runs": [], "scheduler": {}, "free_running": {}}
    viol, known = [], {}
    try:
        drive = vlib.build_driver(sc)
        kfs = open_conc("C06", "lin")
        bound, maxruns, triples, pairs2 = sched_params(tier)
        nhist = 0
        for target in ("memfs", "orefafs"):
            hs, st = explore(sc, drive, target, bound, maxruns, triples, pairs2, seed, "c06")
            cov["scheduler"][target] = st
            nl, wall = judge_lin(sc, target, hs, "sched")
            cov["tlc_runs"].append({"model": "Lin (sequential FS spec as oracle)", "target": target, "histories": len(hs),
                                    "non_linearizable": len(nl), "wall_s": round(wall, 1)})
            nhist += len(hs)
            fhs, fst, _ = stress(sc, drive, target, vlib.NCPU if tier != "quick" else 8, 60 if tier == "quick" else 400, 30, seed, "c06")
            cov["free_running"][target] = {k: v for k, v in fst.items() if not k.endswith("_msgs")}
            fnl, fwall = judge_lin(sc, target, fhs, "free")
            cov["tlc_runs"].append({"model": "Lin", "target": target, "free_running_histories": len(fhs),
                                    "non_linearizable": len(fnl), "wall_s": round(fwall, 1)})
            nhist += len(fhs)
            for h in hs + fhs:
                why = None
                if h.get("tmpdup"):
                    why = "CreateTemp/MkdirTemp handed the same name to two callers"
                elif h["id"] in (nl if h["id"] < 1000000 else fnl):
                    why = "no sequential order of the calls explains the results and the final tree" + \
                          ("" if h["inv"] == "ok" else " (internal checker: %s)" % h["inv"])
                if not why:
                    continue
                f = match_lin(h, kfs)
                if f:
                    known.setdefault(f["id"], [f, 0])[1] += 1
                else:
                    viol.append((target, h, why))
            for m in fst["inv_msgs"]:
                mm = re.search(r"stored link count (\d+), (\d+) entries", m)
                ops = m.split("| ops: ")[-1].split(",")
                if target == "memfs" and mm and int(mm.group(1)) == int(mm.group(2)) + 1 and "link" in ops and "removeall" in ops \
                        and any(f["id"] == "KF37" for f in kfs):
                    known.setdefault("KF37", [[f for f in kfs if f["id"] == "KF37"][0], 0])[1] += 1
                else:
                    viol.append((target, {"prog": "free-running large program", "calls": [], "inv": m, "fs": target}, "the final tree breaks a structural invariant: " + m))
            if not cov["samples"] and hs:
                cov["samples"].append({"history": hbrief(hs[len(hs) // 2]), "schedule": hs[len(hs) // 2]["sched"][:40]})
        for f in open_conc("C06", "lin"):
            n = known.get(f["id"], [None, 0])[1]
            print("KNOWN-FINDING: property=C06 %s %s%s" % (f["id"], f["what"], " (%d histories of this run)" % n if n else ""))
        seen, nv = set(), 0
        for target, h, why in viol:
            key = (target, tuple(sig(h)) if h["calls"] else why)
            if key in seen:
                continue
            seen.add(key)
            nv += 1
            if nv > 20:
                continue
            path = vlib.save_replay("C06", {"property": "C06", "target": target, "kind": "history", "history": h, "why": why,
                                            "summary": hbrief(h) if h["calls"] else why})
            print("VIOLATION property=C06 replay=%s" % path)
            log("  on %s: %s | %s" % (target, hbrief(h) if h["calls"] else "", why))
        cov["states"] = nhist
        cov["transitions"] = sum(v.get("Runs", 0) for v in cov["scheduler"].values())
        cov["traces_validated_against_impl"] = nhist
        cov["universe"] = "programs: every unordered pair of %d call templates on overlapping names of two directories (2 goroutines x 1 call), " \
                          "%d sampled triples, %d sampled 2x2 programs; all schedules at lock-acquisition granularity with <= %d preemptions " \
                          "(<= %d executions per program); plus free-running small programs on all cores" % (27, triples, pairs2, bound, maxruns)
        cov["exhaustive"] = False
        vlib.write_evidence("C06", tier, seed, "model_checking", cov, time.time() - t0, violations=nv,
                            assumptions=["the scheduler serialises goroutines at the verif lock hook: interleavings finer than lock acquisitions are seen only by the free-running part",
                                         "WriteFile is judged as open(O_CREATE|O_TRUNC) followed by the write, as in package os",
                                         "temporary names are compared up to renaming; the driver checks that the names handed out are distinct"])
        return 1 if nv else 0
    finally:
        sc.cleanup()


def adv_known(o, kfs):
    for f in kfs:
        m = f.get("match") or {}
        if m.get("kind") == "adv" and o["type"].startswith(m["type"]) and m["outcome"] in o["outcome"]:
            return f
    if o["type"].startswith("BasePathFS") and "path must start with" in o["outcome"]:
        for f in kfs:
            if f["id"] == "KF31":
                return f
    return None


def check_c07(tier, seed):
    run = nscheck.NsRun("C07", tier, seed)
    sc = run.sc
    t0 = time.time()
    viol = []
    try:
        run.build()
        drive = run.drive
        kfs = [f for f in vlib.load_findings()["findings"] if f["status"] == "open" and "C07" in f["properties"]]
        used = collections.Counter()
        # 1. totality over the adversarial argument domain (reflection over every method of every type)
        procs = []
        for k in range(vlib.NCPU):
            out = sc.path("adv-%d.ndjson" % k)
            procs.append((subprocess.Popen([drive, "adversarial", "-out", out, "-shard", str(k), "-nshard", str(vlib.NCPU),
                                            "-max", "300" if tier == "quick" else "3000"], stdout=subprocess.PIPE, stderr=subprocess.PIPE, text=True), out))
        adv = collections.Counter()
        per = collections.Counter()
        for p, out in procs:
            so, se = p.communicate(timeout=3000)
            if p.returncode != 0:
                m = re.search(r"fatal error: [^\n]*", se)
                frames = re.findall(r"\n(github.com/avfs/avfs\S*)\(", se)
                if m:
                    viol.append(("adversarial", "%s in %s" % (m.group(0), ", ".join(dict.fromkeys(frames[:4]))), {"stderr": se[:4000]}))
                    continue
                raise Infra("adversarial enumeration failed: " + se[-3000:])
            d = json.loads(so.strip().splitlines()[-1])
            for k2 in ("receivers", "methods", "calls", "returned", "bad"):
                adv[k2] += d[k2]
            per.update(d["calls_per_type"])
            for line in open(out):
                o = json.loads(line)
                f = adv_known(o, kfs)
                if f:
                    used[f["id"]] += 1
                else:
                    viol.append(("adversarial", "%s.%s(%s): %s" % (o["type"], o["method"], o["args"], o["outcome"]), o))
        run.cov["adversarial_enumeration"] = dict(adv, calls_per_receiver=dict(per))
        # 2. the bounded universes of the specification, replayed: steps where the real code panics or deadlocks
        run.only = lambda tr: tr[-1]["res"]["err"] in ("PANIC", "DEADLOCK", "HANG")
        L = 2 if tier == "quick" else 3
        for prof, targets in (("ns", ("memfs", "orefafs")), ("nssym", ("memfs",)), ("handles", ("memfs", "orefafs"))):
            edges = run.generate(prof, L, "%s%d" % (prof, L))
            for t in targets:
                run.replay(edges, t)
        checks_wrap.wrap_into(run, ["basepath"], ["memfs", "orefafs"], 0, 1 if tier == "quick" else 2)
        checks_wrap.wrap_into(run, ["rofs", "failfs"], ["memfs", "orefafs"], 1, 1 if tier == "quick" else 2)
        for target, tr in run.unexplained:
            viol.append(("sequential " + target, "; ".join(nscheck.brief(e) for e in tr[-3:]), {"calls": [e["call"] for e in tr], "target": target}))
        for k in run.kf_used:
            used[k] += 1
        # 3. every schedule of the concurrent programs: deadlocks (all goroutines wait for a lock) and panics
        bound, maxruns, triples, pairs2 = sched_params(tier)
        run.cov["scheduler"] = {}
        for target in ("memfs", "orefafs"):
            hs, st = explore(sc, drive, target, bound, maxruns, triples, pairs2, seed, "c07")
            run.cov["scheduler"][target] = st
            for h in hs:
                if h["deadlock"] or h["panic"]:
                    viol.append(("scheduler " + target, ("DEADLOCK: " if h["deadlock"] else "PANIC: ") + hbrief(h), {"history": h}))
            _, fst, errs = stress(sc, drive, target, 8 if tier == "quick" else vlib.NCPU, 40 if tier == "quick" else 300, 40, seed, "c07")
            run.cov.setdefault("free_running", {})[target] = {k: v for k, v in fst.items() if not k.endswith("_msgs")}
            for m in fst["panic_msgs"]:
                viol.append(("free-running " + target, "PANIC: " + m, {}))
            for e in errs:
                if "HANG in" in e or "fatal error:" in e:
                    viol.append(("free-running " + target, (re.search(r"HANG in[^\n]*|fatal error:[^\n]*", e) or [""])[0], {"stderr": e[:6000]}))
        for f in kfs:
            print("KNOWN-FINDING: property=C07 %s %s%s" % (f["id"], f["what"], " (%d calls of this run)" % used[f["id"]] if used[f["id"]] else ""))
        seen, nv = set(), 0
        for where, what, obj in viol:
            key = (where, re.sub(r"0x[0-9a-f]+|\d{4,}", "N", what)[:160])
            if key in seen:
                continue
            seen.add(key)
            nv += 1
            if nv > 25:
                continue
            path = vlib.save_replay("C07", dict(obj, property="C07", kind="noreturn", where=where, summary=what))
            print("VIOLATION property=C07 replay=%s" % path)
            log("  %s: %s" % (where, what[:300]))
        run.cov["deviations_used"] = sorted(used)
        run.cov["universe"] = "reflection over every exported method of MemFS, OrefaFS, RoFS, BasePathFS, FailFS (transparent and always failing), their " \
                              "files (open, read-only, directory, closed, nil, and whatever a failed Create/CreateTemp/OpenFile hands back with its error) and MemIdm/users/groups x adversarial argument tuples; the bounded universes of " \
                              "the namespace, symlink, handle and wrapper specifications (L<=%d); all schedules explored for C06; free-running programs with a watchdog" % L
        run.cov["exhaustive"] = False
        if not run.cov["samples"]:
            run.cov["samples"].append("see adversarial_enumeration / scheduler")
        run.cov["traces_validated_against_impl"] = int(run.cov["traces_validated_against_impl"])
        vlib.write_evidence("C07", tier, seed, "model_checking", run.cov, time.time() - t0, violations=nv,
                            assumptions=["a nil callback / nil interface argument is a programming error outside the property's domain (package os and filepath panic as well)",
                                         "sizes are bounded by 64 KiB (an in-memory file system legitimately runs out of memory on terabyte truncations)",
                                         "deadlock verdicts come from the lock hook (single goroutine: the lock is held by the caller itself; scheduler: every live goroutine waits), never from a timeout; the watchdog only guards the free-running part"])
        return 1 if nv else 0
    finally:
        sc.cleanup()


def race_known(r, kfs):
    for f in kfs:
        m = f.get("match") or {}
        if m.get("kind") == "race" and any(m["func"] in x[1] for x in r):
            return f
    return None


def check_c08(tier, seed):
    t0 = time.time()
    sc = vlib.Scratch("C08")
    cov = {"samples": [], "tlc_runs": [], "free_running": {}, "race_reports": {}}
    viol = []
    known = collections.Counter()
    try:
        drive = vlib.build_driver(sc, race=True)
        kfs = [f for f in vlib.load_findings()["findings"] if f["status"] == "open" and "C08" in f["properties"]]
        nhist = 0
        for target in ("memfs", "orefafs"):
            hs, st, errs = stress(sc, drive, target, vlib.NCPU, 60 if tier == "quick" else 1200, 40 if tier == "quick" else 80, seed, "c08", race=True)
            cov["free_running"][target] = {k: v for k, v in st.items() if not k.endswith("_msgs")}
            races = collections.Counter()
            for e in errs:
                if "fatal error:" in e:
                    viol.append((target, "runtime " + re.search(r"fatal error:[^\n]*", e).group(0), {"stderr": e[:6000]}))
                if "HANG in" in e:
                    viol.append((target, re.search(r"HANG in[^\n]*", e).group(0) + " (C07)", {"stderr": e[:6000]}))
                for r in parse_races(e):
                    races[r] += 1
            cov["race_reports"][target] = sum(races.values())
            for r, n in races.items():
                f = race_known(r, kfs)
                if f:
                    known[f["id"]] += n
                else:
                    viol.append((target, "DATA RACE: %s %s (%s) / %s %s (%s)" % (r[0][0], r[0][1], r[0][2], r[1][0], r[1][1], r[1][2]), {"race": r, "count": n}))
            for m in st["panic_msgs"]:
                viol.append((target, "PANIC in a free-running program: " + m, {}))
            # completed effects are visible to calls that start afterwards: the recorded histories carry the real-time
            # order and must be linearizable with respect to the sequential specification
            nl, wall = judge_lin(sc, target, hs, "c08")
            cov["tlc_runs"].append({"model": "Lin (real-time order from an atomic clock)", "target": target, "histories": len(hs),
                                    "non_linearizable": len(nl), "wall_s": round(wall, 1)})
            nhist += len(hs)
            lkfs = open_conc("C06", "lin")
            for h in hs:
                if h["id"] in nl and match_lin(h, lkfs):
                    known[match_lin(h, lkfs)["id"]] += 1
                if h["id"] in nl and not match_lin(h, lkfs):
                    viol.append((target, "a completed call is not visible to a later one (non-linearizable with real-time order): " + hbrief(h), {"history": h}))
            if not cov["samples"] and hs:
                cov["samples"].append({"history": hbrief(hs[0]), "real_time_pairs": hs[0]["rt"]})
        # the shared identity manager alone, free running under the race detector
        out = sc.path("idmconc.ndjson")
        r = subprocess.run([drive, "idmconc", "-seed", str(seed), "-iters", "2000" if tier == "quick" else "20000", "-nproc", "4", "-out", out],
                           capture_output=True, text=True, timeout=1800, env=dict(os.environ, GORACE="halt_on_error=0 exitcode=0"))
        if r.returncode != 0 and "DATA RACE" not in r.stderr:
            raise Infra("idmconc failed: " + r.stderr[-2000:])
        for rr in parse_races(r.stderr):
            viol.append(("memidm", "DATA RACE: %s / %s" % (rr[0], rr[1]), {"race": rr}))
        cov["free_running"]["memidm"] = {"iterations": 2000 if tier == "quick" else 20000, "race_reports": len(parse_races(r.stderr))}
        for f in kfs:
            print("KNOWN-FINDING: property=C08 %s %s%s" % (f["id"], f["what"], " (%d reports in this run)" % known[f["id"]] if known[f["id"]] else ""))
        seen, nv = set(), 0
        for target, what, obj in viol:
            key = (target, re.sub(r":\d+\)", ")", what)[:200])
            if key in seen:
                continue
            seen.add(key)
            nv += 1
            if nv > 25:
                continue
            path = vlib.save_replay("C08", dict(obj, property="C08", kind="race", target=target, summary=what))
            print("VIOLATION property=C08 replay=%s" % path)
            log("  %s: %s" % (target, what[:300]))
        cov["states"] = nhist
        cov["transitions"] = sum(v.get("calls", 0) for v in cov["free_running"].values() if isinstance(v, dict))
        cov["traces_validated_against_impl"] = nhist
        cov["universe"] = "free-running programs under the Go race detector on 16 cores: 2-3 goroutines x 1-2 namespace calls (recorded and judged), " \
                          "2-16 goroutines x 40-80 calls over 46 call templates on shared names, handle programs (own handles or ONE shared handle: " \
                          "Read/Write/ReadAt/WriteAt/Seek/Truncate/Stat/Sync/Chmod/ReadDir/Readdirnames/Close against path-level calls), per-goroutine Sub views " \
                          "with SetUser/SetUMask/Chdir and a shared MemIdm changed concurrently"
        cov["exhaustive"] = False
        cov["evaluations"] = max(1, cov["transitions"])
        cov["distinct_nontrivial"] = max(2, nhist)
        cov["rule"] = "no DATA RACE report, runtime fatal error or panic in any free-running program; every recorded history " \
                      "linearizable with its real-time order for the sequential TLA+ specification (TLC, Lin.tla)"
        vlib.write_evidence("C08", tier, seed, "exploration", cov, time.time() - t0, violations=nv,
                            assumptions=["the race detector only sees the accesses of the schedules that ran; the programs are drawn from the call templates of the specification's universes",
                                         "visibility is decided by TLC: histories with real-time order must be linearizable for the sequential specification"])
        return 1 if nv else 0
    finally:
        sc.cleanup()
