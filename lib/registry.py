"""Property id -> check function."""
import json
import checks_ns
import checks_idm
import checks_copy
import checks_wrap
import checks_os
import checks_conc

CHECKS = {
    "C01": checks_ns.check_c01,
    "C02": checks_ns.check_c02,
    "C03": checks_ns.check_c03,
    "C04": checks_ns.check_c04,
    "C05": checks_ns.check_c05,
    "C06": checks_conc.check_c06,
    "C07": checks_conc.check_c07,
    "C08": checks_conc.check_c08,
    "C09": checks_wrap.check_c09,
    "C10": checks_wrap.check_c10,
    "C11": checks_wrap.check_c11,
    "C12": checks_wrap.check_c12,
    "C13": checks_os.check_c13,
    "C14": checks_ns.check_c14,
    "C15": checks_idm.check_c15,
    "C16": checks_copy.check_c16,
    "C17": checks_os.check_c17,
}


def replay(path):
    import replaycmd
    return replaycmd.run(path)
