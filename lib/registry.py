"""Property id -> check function."""
import json
import checks_ns

CHECKS = {
    "C01": checks_ns.check_c01,
    "C05": checks_ns.check_c05,
}


def replay(path):
    import replaycmd
    return replaycmd.run(path)
