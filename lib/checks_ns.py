"""C01 and C05 (and helpers reused by C04/C07)."""
import json, itertools
import nscheck, vlib


def sample_edges(run, edges, k=3):
    out = []
    with open(edges) as f:
        for i, line in enumerate(f):
            if i % 997 < 40 and len(out) < k:
                e = json.loads(json.loads(line)) if line.startswith('"') else json.loads(line)
                if e.get("t") == "alt":
                    continue
                out.append({"hist": [c["op"] + " " + nscheck.P(c["p"]) for c in e["hist"]],
                            "call": e["call"]["op"] + " " + nscheck.P(e["call"]["p"]) + " " + nscheck.P(e["call"]["q"]),
                            "expected": e["res"]["err"], "expected_tree_entries": len(e["post"])})
                if len(out) >= k:
                    break
    run.cov["samples"] += out


def pipeline(run, tier):
    run.build()
    if tier == "quick":
        plan = [("ns", 3, ("osfs", "memfs", "orefafs")), ("nssym", 2, ("osfs", "memfs")),
                ("nsseed", 1, ("osfs", "memfs", "orefafs"))]
        rnd = [(64, 150)]
    else:
        plan = [("ns", 4, ("osfs", "memfs", "orefafs")), ("nssym", 3, ("osfs", "memfs")),
                ("nsseed", 2, ("osfs", "memfs", "orefafs"))]
        rnd = [(200, 200), (200, 200), (200, 200)]
    for prof, L, targets in plan:
        edges = run.generate(prof, L, "%s%d" % (prof, L))
        sample_edges(run, edges)
        for t in targets:
            run.replay(edges, t)
    for k, (n, ln) in enumerate(rnd):
        run.random(n, ln, seed=run.seed * 7 + k)


def check_c01(tier, seed):
    run = nscheck.NsRun("C01", tier, seed)
    try:
        pipeline(run, tier)
        run.cov["universe"] = "names {a,b} depth 2 under /w plus / and /w as operands (bounded exhaustive); " \
                              "names {a,b,c} depth 3 (random)"
        run.cov["exhaustive"] = True
        return nscheck.finish(run, "C01")
    finally:
        run.close()


def check_c05(tier, seed):
    run = nscheck.NsRun("C05", tier, seed)
    try:
        pipeline(run, tier)
        # calls refused half-way by permissions (a non-administrator's RemoveAll of a subtree it may only partly empty):
        # what stays behind must still have exact link counts
        pedges = run.generate("perm3", 1 if tier == "quick" else 2, "perm3")
        for t in ("osfs", "memfs"):
            run.replay(pedges, t)
        run.cov["universe"] = "as C01; every operand pair including the root, ancestors/descendants, identical and missing operands; " \
                              "plus the configured permission trees of profile perm3 (RemoveAll/Remove/Rename by a non-administrator)"
        run.cov["exhaustive"] = True
        # only steps that break a clause of C05 by themselves are C05 violations
        return nscheck.finish(run, "C05", classify=lambda target, tr, reasons: bool(reasons))
    finally:
        run.close()


def check_c02(tier, seed):
    run = nscheck.NsRun("C02", tier, seed)
    try:
        run.build()
        L = 3 if tier == "quick" else 4
        edges = run.generate("handles", L, "handles%d" % L)
        sample_edges(run, edges)
        for t in ("osfs", "memfs", "orefafs"):
            run.replay(edges, t)
        # directory handles over a directory with three entries: batch sizes incl. the largest int, two cursors,
        # ReadDir and Readdirnames mixed, rewinds, entries coming and going between batches
        dedges = run.generate("dirh", 4 if tier == "quick" else 5, "dirh")
        for t in ("osfs", "memfs", "orefafs"):
            run.replay(dedges, t, names="a,b,c,d")
        for k, (n, ln) in enumerate([(16, 120)] if tier == "quick" else [(150, 200), (150, 200)]):
            run.random(n, ln, sym=False, own=False, handles=True, names="a,b", depth=2, seed=seed * 11 + k)
        run.cov["universe"] = "one file with up to two names (/w/a, /w/b) and the directory /w; up to 2 open handles; all 36 flag " \
                              "combinations; lengths {0,1,3}, offsets {-1,0,size-1,size,size+2}; path-level truncate/rename/link/remove interleaved"
        run.cov["exhaustive"] = True
        return nscheck.finish(run, "C02")
    finally:
        run.close()


def check_c04(tier, seed):
    run = nscheck.NsRun("C04", tier, seed)
    try:
        run.build()
        q = tier == "quick"
        # (three names make 38k link graphs and more than a million transitions of 5 KB each: both tiers enumerate the
        # two-name graphs exhaustively, the thorough tier deepens the histories and the random part instead)
        edges = run.generate("symq", 1, "symq")
        sample_edges(run, edges)
        for t in ("osfs", "memfs"):
            run.replay(edges, t, names="a,b,c,s,f,u,zz")
        # long hist lines: one TLC worker keeps them intact
        edges = run.generate("symchain", 1, "symchain", workers=1)
        for t in ("osfs", "memfs"):
            run.replay(edges, t, names="t,l1,l2")
        edges = run.generate("nssym", 2 if q else 3, "nssym")
        for t in ("osfs", "memfs"):
            run.replay(edges, t)
        for k, (n, ln) in enumerate([(16, 120)] if q else [(200, 200), (200, 200)]):
            run.random(n, ln, sym=True, own=False, seed=seed * 13 + k)
        run.cov["universe"] = "every link graph over %d names in /w (absent, file, directory, link to sibling / ../w/x / /w/x / s/f / s/u / s, " \
                              "self-loops and 2- and 3-cycles included) next to a fixed directory /w/s x every query path of <=4 components x " \
                              "16 operations; chains of 1,2,39,40,41,64,65,255,256 links; histories with symlink calls" % 2
        run.cov["exhaustive"] = True
        return nscheck.finish(run, "C04")
    finally:
        run.close()


def check_c14(tier, seed):
    import checks_wrap
    run = nscheck.NsRun("C14", tier, seed)
    try:
        run.build()
        q = tier == "quick"
        edges = run.generate("enum", 4 if q else 5, "enum")
        sample_edges(run, edges)
        for t in ("osfs", "memfs", "orefafs"):
            run.replay(edges, t)
        # enumeration by a non-administrator over directories that cannot be listed or searched (the configured trees
        # of profile perm3): WalkDir tells the callback, Glob passes them by, the helpers report the error
        pedges = run.generate("perm4", 1 if q else 2, "perm4")
        for t in ("osfs", "memfs"):
            run.replay(pedges, t)
        # the same enumeration calls through the wrapper file systems
        for kind, targets in (("rofs", ("memfs",)), ("failfs", ("memfs",)), ("basepath", ("memfs",))):
            for target in targets:
                wedges = run.sc.path("wrap-%s-%s.ndjson" % (kind, target))
                r = vlib.run_tlc(run.sc, "MCwrap", "MCwrap.cfg", name="wrap-%s-%s" % (kind, target), timeout=3000, heap="12g",
                                 env={"VERIF_KIND": kind, "VERIF_BUILDLEN": 2 if kind != "basepath" else 0, "VERIF_WRAPLEN": 1,
                                      "VERIF_EDGES": wedges, "VERIF_IMPL": target})
                if not r["ok"]:
                    raise vlib.Infra("wrapper specification violates its own properties (%s):\n%s" % (kind, r["out"][-3000:]))
                run.cov["states"] += r["distinct"]
                run.cov["transitions"] += r["generated"]
                run.replay(wedges, target, names="a,b,B,f,s" if kind == "basepath" else "a,b")
        run.cov["universe"] = "trees built by <=%d elementary calls (directories, files, symbolic links, Chdir) x 150 glob patterns over " \
                              "{*,?,a,b,a*,*b,??,[ab],[^a],\\\\a,*a*} absolute and relative x WalkDir with SkipDir/SkipAll/error at every " \
                              "visit index 1..6 x Exists/DirExists/IsDir/IsEmpty/ReadDir; repeated through RoFS, FailFS and BasePathFS; " \
                              "the enumeration calls by a non-administrator on the configured permission trees of profile perm4 (unreadable / " \
                              "unsearchable directories, callbacks answering SkipDir to the error they are handed)" % (3 if q else 4)
        run.cov["exhaustive"] = True
        return nscheck.finish(run, "C14")
    finally:
        run.close()


def check_c03(tier, seed):
    """Permissions (C03): configured (owner, group, mode) trees x acting users x path-taking calls, each decided by the
    kernel under the same fsuid/fsgid (which keeps FsCore's DAC rules honest) and by MemFS through a view with SetUser."""
    run = nscheck.NsRun("C03", tier, seed)
    try:
        run.build()
        L = 1 if tier == "quick" else 2
        for prof in ("perm1", "perm2", "perm3"):
            edges = run.generate(prof, L, "%s-%d" % (prof, L))
            sample_edges(run, edges)
            for t in ("osfs", "memfs"):
                run.replay(edges, t)
        for k, (n, ln) in enumerate([(48, 80)] if tier == "quick" else [(300, 120), (300, 120), (300, 120)]):
            run.random(n, ln, sym=False, own=False, names="a,b", depth=2, perm=True, targets=("memfs",), seed=seed * 13 + k)
        run.cov["universe"] = "nodes /w/d, /w/e (directories), /w/d/f, /w/e/b (files) with every owner class relative to the acting user " \
                              "(owner / group / other) x every rwx triple for that class (complement in the other classes), sticky and " \
                              "set-gid directories, set-uid/set-gid files, umasks {022, 0, 077, 0777}, /w with and without search " \
                              "permission, acting users u1 and root; 60 single-directory call shapes and 7 two-directory ones " \
                              "(rename/link across d and e); random 80-120 step histories with SetUser among root/u1/u2, SetUMask, " \
                              "chmod with arbitrary 12-bit modes and chown by anybody"
        run.cov["exhaustive"] = True
        return nscheck.finish(run, "C03", extra_assumptions=[
            "the kernel decides under setfsuid/setfsgid/setgroups([]) on the calling thread; fs.protected_hardlinks=1 (kernel default) is part of the reference",
            "MemIdm users have one group: supplementary groups are not exercised",
            "the acting MemFS view is Sub('/') with SetUser; the projection reads through the administrator's file system"])
    finally:
        run.close()
