"""C15: the in-memory identity manager (MemIdm.tla, MemIdmSpec, MemIdmConc, IdmTrace, IdmLin)."""
import json, os, re, subprocess, time
import vlib
from vlib import Infra, log


def open_kf(pid):
    return [f for f in vlib.load_findings()["findings"] if f["status"] == "open" and pid in f["properties"]]


def check_c15(tier, seed):
    t0 = time.time()
    sc = vlib.Scratch("C15")
    cov = {"samples": [], "tlc_runs": []}
    viol = []
    try:
        drive = vlib.build_driver(sc)
        maxissue = 3 if tier == "quick" else 4
        edges = sc.path("idm-edges.ndjson")
        r = vlib.run_tlc(sc, "MCidm", "MCidm.cfg", env={"VERIF_MAXISSUE": maxissue, "VERIF_EDGES": edges}, timeout=1800)
        if not r["ok"]:
            raise Infra("MemIdm model violates its invariants:\n" + r["out"][-3000:])
        cov["states"], cov["transitions"] = r["distinct"], r["generated"]
        cov["tlc_runs"].append({"model": "MemIdmSpec", "max_ids_issued": maxissue, "generated": r["generated"],
                                "distinct": r["distinct"], "checked": ["Inv (maps agree, ids unique, ids from issued)", "AdminFromStart", "NeverReissued", "NeverReissuedU"],
                                "exhaustive": True})
        openids = ",".join(f["id"] for f in open_kf("C15"))
        procs = []
        for k in range(vlib.NCPU):
            out = sc.path("idm-bad-%d.ndjson" % k)
            procs.append((subprocess.Popen([drive, "idmreplay", "-edges", edges, "-out", out, "-shard", str(k),
                                            "-nshard", str(vlib.NCPU), "-openkf", openids, "-maxid", str(1000 + maxissue + 2)],
                                           stdout=subprocess.PIPE, stderr=subprocess.PIPE, text=True), out))
        nedges, used, events = 0, {}, []
        for p, out in procs:
            so, se = p.communicate(timeout=1800)
            if p.returncode != 0:
                raise Infra("idmreplay failed: " + se[-2000:])
            st = json.loads(so.strip().splitlines()[-1])
            nedges += st["edges"]
            for k2, v in (st["used"] or {}).items():
                used[k2] = used.get(k2, 0) + v
            events += [json.loads(l) for l in open(out)]
        cov["edges_replayed"] = nedges
        cov["edges_explained_by_deviation"] = used
        traces = {}
        for e in events:
            traces.setdefault(e["tr"], []).append(e)
        if events:
            v = vlib.validate_traces(sc, "memidm", events, name="idmtrace", module="IdmTrace", cfg="IdmTrace.cfg")
            for (tr, i) in v["unexplained"]:
                viol.append(("sequential", traces[tr][:i]))
        cov["traces_validated_against_impl"] = len(traces)
        # concurrent model
        for cfg in (["MCidmconc2.cfg"] if tier == "quick" else ["MCidmconc2.cfg", "MCidmconc3.cfg"]):
            r = vlib.run_tlc(sc, "MCidmconc", cfg, name="conc-" + cfg, timeout=1800)
            if not r["ok"]:
                raise Infra("the lock-granularity model of MemIdm is not linearizable / breaks the map invariant "
                            "(model-only result, to be reproduced on the code):\n" + r["out"][-3000:])
            cov["tlc_runs"].append({"model": "MemIdmConc", "cfg": cfg, "generated": r["generated"], "distinct": r["distinct"],
                                    "checked": ["MapsAlwaysAgree", "Linearizable"], "exhaustive": True})
            cov["states"] += r["distinct"]
            cov["transitions"] += r["generated"]
        # real concurrent executions judged by IdmLin
        nhist = 0
        # (nproc 0 = every pair of calls from three set-up states under the deterministic scheduler: all schedules at
        # mutex-acquisition granularity with at most 2 / 3 preemptions)
        for nproc, iters in ([(0, 200), (2, 30000), (3, 30000)] if tier == "quick" else [(0, 2000), (2, 300000), (3, 300000), (4, 100000)]):
            hf = sc.path("idm-hist-%d.ndjson" % nproc)
            if nproc == 0:
                r = subprocess.run([drive, "idmsched", "-out", hf, "-bound", "2" if tier == "quick" else "3", "-maxruns", str(iters)],
                                   capture_output=True, text=True, timeout=1800)
            else:
                r = subprocess.run([drive, "idmconc", "-out", hf, "-iters", str(iters), "-nproc", str(nproc), "-seed", str(seed)],
                                   capture_output=True, text=True, timeout=1800)
            if r.returncode != 0:
                raise Infra("idmconc failed: " + r.stderr[-2000:])
            wd = sc.path("tlc-idmlin-%d" % nproc)
            os.makedirs(wd, exist_ok=True)
            rr = vlib.run_tlc_in(wd, "IdmLin", "IdmLin.cfg", env={"VERIF_HIST": hf}, workers=1, timeout=1800)
            m = re.search(r'<<\s*"NONLIN",\s*\{(.*?)\}\s*>>', rr["out"], re.S)
            m2 = re.search(r'<<\s*"HISTORIES",\s*(\d+)\s*>>', rr["out"])
            if not m or not m2:
                raise Infra("IdmLin gave no verdict:\n" + rr["out"][-3000:])
            nhist += int(m2.group(1))
            ids = [int(x) for x in re.findall(r"\d+", m.group(1))]
            hs = {h["id"]: h for h in (json.loads(l) for l in open(hf))}
            for i in ids:
                viol.append(("concurrent", hs[i]))
            if not cov["samples"]:
                cov["samples"].append({"concurrent_history": list(hs.values())[len(hs) // 2]})
            cov["tlc_runs"].append({"judge": "IdmLin", "goroutines": nproc or "2 (deterministic scheduler, all call pairs)", "executions": iters, "distinct_histories": int(m2.group(1))})
        cov["concurrent_histories_judged"] = nhist
        with open(edges) as f:
            for i, line in enumerate(f):
                if i == 1234:
                    e = json.loads(json.loads(line))
                    cov["samples"].append({"hist": [c["op"] + " " + c["name"] for c in e["hist"]], "call": e["call"], "expected": e["res"]})
                    break
        for f in open_kf("C15"):
            print("KNOWN-FINDING: property=C15 %s %s%s" % (f["id"], f["what"], " (exercised in this run)" if used.get(f["id"]) else ""))
        nv = 0
        for kind, what in viol[:20]:
            nv += 1
            path = vlib.save_replay("C15", {"property": "C15", "kind": "idm-" + kind, "what": what})
            print("VIOLATION property=C15 replay=%s" % path)
        cov["exhaustive"] = True
        vlib.write_evidence("C15", tier, seed, "model_checking", cov, time.time() - t0, violations=len(viol),
                            assumptions=["pool of names {root,g1,g2} x {root,u1,u2}; at most %d ids issued per kind" % maxissue,
                                         "concurrent executions: every pair of calls under the deterministic scheduler (lock-acquisition granularity, preemption bound) plus free-running runs with 2-4 goroutines"])
        return 1 if viol else 0
    finally:
        sc.cleanup()
