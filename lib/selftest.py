"""Binding self-test: a recorded MemFS trace is accepted; the same trace with one recorded field
corrupted (a result, a byte of content, a link count) is rejected at exactly that line."""
import copy, json, os, subprocess, sys
sys.path.insert(0, os.path.dirname(os.path.abspath(__file__)))
import vlib


def main():
    sc = vlib.Scratch("selftest")
    try:
        drive = vlib.build_driver(sc)
        calls = [
            {"op": "mkdir", "p": "/w/a", "perm": 0o755},
            {"op": "writefile", "p": "/w/a/b", "data": [1, 2], "perm": 0o644},
            {"op": "link", "p": "/w/a/b", "q": "/w/c"},
            {"op": "rename", "p": "/w/a", "q": "/w/d"},
            {"op": "remove", "p": "/w/c"},
            {"op": "readfile", "p": "/w/d/b"},
        ]
        plan = {"name": "self", "calls": [vlib.mkcall(**c) for c in calls]}
        pf = sc.path("p.ndjson")
        open(pf, "w").write(json.dumps(plan) + "\n")
        out = sc.path("t.trace")
        r = subprocess.run([drive, "runplans", "-target", "memfs", "-plans", pf, "-trace", out], capture_output=True, text=True)
        if r.returncode != 0:
            raise vlib.Infra(r.stderr)
        evs = [json.loads(l) for l in open(out)]
        v = vlib.validate_traces(sc, "memfs", evs, name="self0")
        assert not v["unexplained"] and v["judged"] == len(evs), v
        # corrupt: result of step 3, content in step 2's tree, link count in step 3's tree
        for k, (step, fn) in enumerate([
            (3, lambda e: e["res"].__setitem__("err", "EEXIST")),
            (2, lambda e: [x["d"].__setitem__(0, 3) for x in e["post"] if x["k"] == "file"]),
            (3, lambda e: [x.__setitem__("nl", 1) for x in e["post"] if x["k"] == "file"]),
            (6, lambda e: e["res"]["data"].__setitem__(1, 9)),
        ]):
            bad = copy.deepcopy(evs)
            fn(bad[step - 1])
            v = vlib.validate_traces(sc, "memfs", bad, name="self%d" % (k + 1))
            assert ("self", step) in v["unexplained"], (k, v)
        print("selftest ok: trace accepted, 4 corrupted variants rejected at the corrupted line")
    finally:
        sc.cleanup()


if __name__ == "__main__":
    main()
