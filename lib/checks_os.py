"""C17: OS-type emulation does not depend on the host (driver built with -tags 'verif avfs_setostype')."""
import json, os, subprocess, time
import nscheck, vlib, checks_ns
from vlib import Infra

WIN_TAGS = "verif avfs_setostype"


def check_c17(tier, seed):
    run = nscheck.NsRun("C17", tier, seed)
    try:
        run.drive = vlib.build_driver(run.sc, tags=WIN_TAGS)
        q = tier == "quick"
        # (1) what a freshly constructed file system of each type reports
        info = subprocess.run([run.drive, "osinfo"], capture_output=True, text=True)
        if info.returncode != 0:
            raise Infra("osinfo failed: " + info.stderr[-2000:])
        table = json.loads(info.stdout)
        run.cov["constructed"] = table
        want = {"memfs": ["Linux", "/"], "orefafs": ["Linux", "/"], "memfs-win": ["Windows", "\\"], "orefafs-win": ["Windows", "\\"]}
        osviol = [t for t in want if table.get(t, {}).get("ostype_sep") != want[t] or not table[t].get("has_setostype")]
        # (2) the C01 transitions on portable paths: Windows-typed and Linux-typed instances against the same specification
        for prof, L, targets in ([("ns", 3, ("memfs-win", "orefafs-win", "memfs", "orefafs")), ("nssym", 2, ("memfs-win", "memfs"))] if q else
                                 [("ns", 4, ("memfs-win", "orefafs-win", "memfs", "orefafs")), ("nssym", 3, ("memfs-win", "memfs"))]):
            edges = run.generate(prof, L, "%s%d" % (prof, L))
            checks_ns.sample_edges(run, edges)
            for t in targets:
                run.replay(edges, t)
        # (3) volume management
        vedges = run.sc.path("vol.ndjson")
        r = vlib.run_tlc(run.sc, "MCvol", "MCvol.cfg", env={"VERIF_MAXLEN": 3 if q else 5, "VERIF_EDGES": vedges}, workers=8)
        if not r["ok"]:
            raise Infra("the volume specification violates its own properties:\n" + r["out"][-3000:])
        run.cov["states"] += r["distinct"]
        run.cov["transitions"] += r["generated"]
        vb = run.sc.path("volbad.ndjson")
        rr = subprocess.run([run.drive, "volreplay", "-edges", vedges, "-out", vb], capture_output=True, text=True, timeout=900)
        if rr.returncode != 0:
            raise Infra("volreplay failed: " + rr.stderr[-2000:])
        vst = json.loads(rr.stdout.strip().splitlines()[-1])
        run.cov["volume_transitions_replayed"] = vst["edges"]
        volbad = [json.loads(l) for l in open(vb)]
        run.cov["universe"] = "C01's bounded universe replayed on Windows-typed and Linux-typed MemFS and OrefaFS built with avfs_setostype " \
                              "(generic path functions); volumes {C:,D:,E:}, sequences of <=%d volume calls" % (3 if q else 5)
        run.cov["exhaustive"] = True
        rc = nscheck.finish(run, "C17", extra_assumptions=["errno values are compared as 'some Windows error value' on the Windows-typed side; "
                                                              "Chown/Lchown/Chmod/umask are documented as OS specific and not issued there"])
        extra = 0
        for t in osviol:
            extra += 1
            p = vlib.save_replay("C17", {"property": "C17", "kind": "osinfo", "target": t, "got": table.get(t), "want": want[t]})
            print("VIOLATION property=C17 replay=%s" % p)
        for b in volbad[:10]:
            extra += 1
            p = vlib.save_replay("C17", {"property": "C17", "kind": "volumes", "edge": b})
            print("VIOLATION property=C17 replay=%s" % p)
        return 1 if (rc == 1 or extra) else rc
    finally:
        run.close()
