"""C17: OS-type emulation does not depend on the host (driver built with -tags 'verif avfs_setostype')."""
import json, os, subprocess, time
import nscheck, vlib, checks_ns
from vlib import Infra

WIN_TAGS = "verif avfs_setostype"


def check_c17(tier, seed):
    run = nscheck.NsRun("C17", tier, seed)
    try:
        run.drive = vlib.build_driver(run.sc, tags=WIN_TAGS)
        q = tier == "quick"
        # (1) what a freshly constructed file system of each type reports
        info = subprocess.run([run.drive, "osinfo"], capture_output=True, text=True)
        if info.returncode != 0:
            raise Infra("osinfo failed: " + info.stderr[-2000:])
        table = json.loads(info.stdout)
        run.cov["constructed"] = table
        want = {"memfs": ["Linux", "/"], "orefafs": ["Linux", "/"], "memfs-win": ["Windows", "\\"], "orefafs-win": ["Windows", "\\"]}
        osviol = [t for t in want if table.get(t, {}).get("ostype_sep") != want[t] or not table[t].get("has_setostype")]
        # (2) the C01 transitions on portable paths: Windows-typed and Linux-typed instances against the same specification
        for prof, L, targets in ([("ns", 3, ("memfs-win", "orefafs-win", "memfs", "orefafs")), ("nssym", 2, ("memfs-win", "memfs"))] if q else
                                 [("ns", 4, ("memfs-win", "orefafs-win", "memfs", "orefafs")), ("nssym", 3, ("memfs-win", "memfs"))]):
            edges = run.generate(prof, L, "%s%d" % (prof, L))
            checks_ns.sample_edges(run, edges)
            for t in targets:
                run.replay(edges, t)
        # (2a) the same transitions inside an ADDED volume: symbolic links whose resolution restarts the walk must stay in it
        sedges = run.generate("nssym", 2, "nssym-d")
        run.replay(sedges, "memfs-d-win")
        # (2b) open files and directory handles behave alike on both OS types (handle universes of C02)
        hedges = run.generate("handles", 2 if q else 3, "handles-win")
        for t in ("memfs-win", "orefafs-win"):
            run.replay(hedges, t)
        dedges = run.generate("dirh", 3 if q else 4, "dirh-win")
        for t in ("memfs-win", "orefafs-win"):
            run.replay(dedges, t, names="a,b,c,d")
        # (3) volume management
        vedges = run.sc.path("vol.ndjson")
        r = vlib.run_tlc(run.sc, "MCvol", "MCvol.cfg", env={"VERIF_MAXLEN": 3 if q else 5, "VERIF_EDGES": vedges}, workers=8)
        if not r["ok"]:
            raise Infra("the volume specification violates its own properties:\n" + r["out"][-3000:])
        run.cov["states"] += r["distinct"]
        run.cov["transitions"] += r["generated"]
        vb = run.sc.path("volbad.ndjson")
        rr = subprocess.run([run.drive, "volreplay", "-edges", vedges, "-out", vb], capture_output=True, text=True, timeout=900)
        if rr.returncode != 0:
            raise Infra("volreplay failed: " + rr.stderr[-2000:])
        vst = json.loads(rr.stdout.strip().splitlines()[-1])
        run.cov["volume_transitions_replayed"] = vst["edges"]
        volbad = [json.loads(l) for l in open(vb)]
        run.cov["universe"] = "C01's bounded universe replayed on Windows-typed and Linux-typed MemFS and OrefaFS built with avfs_setostype " \
                              "(generic path functions); volumes {C:,D:,E:}, sequences of <=%d volume calls" % (3 if q else 5)
        run.cov["exhaustive"] = True
        rc = nscheck.finish(run, "C17", extra_assumptions=["errno values are compared as 'some Windows error value' on the Windows-typed side; "
                                                              "Chown/Lchown/Chmod/umask are documented as OS specific and not issued there"])
        extra = 0
        for t in osviol:
            extra += 1
            p = vlib.save_replay("C17", {"property": "C17", "kind": "osinfo", "target": t, "got": table.get(t), "want": want[t]})
            print("VIOLATION property=C17 replay=%s" % p)
        for b in volbad[:10]:
            extra += 1
            p = vlib.save_replay("C17", {"property": "C17", "kind": "volumes", "edge": b})
            print("VIOLATION property=C17 replay=%s" % p)
        return 1 if (rc == 1 or extra) else rc
    finally:
        run.close()


def kf35(f):
    """KF35: Windows Join of ':' with an element starting with ':' (older generation of the toolchain's join)."""
    if f["os"] == "windows" and f["fn"] == "Join":
        a, _, b = f["in"].partition("|")
        return a == ":" and b.startswith(":")
    return False


def check_c13(tier, seed):
    t0 = time.time()
    sc = vlib.Scratch("C13")
    cov = {"samples": [], "tlc_runs": []}
    try:
        subprocess.run(["python3", os.path.join(vlib.VERIF, "lib", "genwinref.py")], check=True)
        drive = vlib.build_driver(sc, tags=WIN_TAGS)
        q = tier == "quick"
        # (pairs of arbitrary strings stay at length 2: TLC builds the set of initial states on one thread, and a
        # million records take it the better part of an hour; longer operands come from the structured generators)
        l1, l2 = (4, 2) if q else (5, 2)
        tables = sc.path("lex.ndjson")
        r = vlib.run_tlc(sc, "MClex", "MClex.cfg", env={"VERIF_LEN1": l1, "VERIF_LEN2": l2, "VERIF_EDGES": tables}, timeout=3000, heap="12g")
        if not r["ok"]:
            raise Infra("Lex.tla violates its own laws:\n" + r["out"][-3000:])
        cov["states"], cov["transitions"] = r["distinct"], r["generated"]
        cov["tlc_runs"].append({"model": "LexSpec", "strings_up_to": l1, "pairs_up_to": l2, "checked": ["CleanIdempotent", "SplitReassembles"], "exhaustive": True})
        bad = sc.path("lexbad.ndjson")
        rr = subprocess.run([drive, "lexreplay", "-edges", tables, "-out", bad], capture_output=True, text=True, timeout=3000)
        if rr.returncode != 0:
            raise Infra("lexreplay failed: " + rr.stderr[-2000:])
        st = json.loads(rr.stdout.strip().splitlines()[-1])
        cov["traces_validated_against_impl"] = st["evaluations"]
        cov["evaluations"] = st["evaluations"]
        finds = [json.loads(l) for l in open(bad)]
        spec = [f for f in finds if f["kind"] == "spec"]
        impl = [f for f in finds if f["kind"] == "impl"]
        if spec:
            for f in spec[:5]:
                print("SPEC-MISMATCH (the reference library disagrees with Lex.tla; no verdict): %s %s(%r) spec=%r reference=%r" %
                      (f["os"], f["fn"], f["in"], f["want"], f["got"]))
            return 2
        known = [f for f in impl if kf35(f)]
        viol = [f for f in impl if not kf35(f)]
        with open(tables) as fh:
            for i, line in enumerate(fh):
                if i in (1000, 5000):
                    cov["samples"].append(json.loads(json.loads(line)))
        cov["exhaustive"] = True
        cov["known_finding_inputs"] = len(known)
        for f in vlib.load_findings()["findings"]:
            if f["status"] == "open" and "C13" in f["properties"]:
                print("KNOWN-FINDING: property=C13 %s %s%s" % (f["id"], f["what"], " (exercised in this run)" if known else ""))
        nv = 0
        seen = set()
        for f in viol:
            key = (f["os"], f["fn"])
            if key in seen and nv >= 20:
                continue
            seen.add(key)
            nv += 1
            if nv <= 20:
                p = vlib.save_replay("C13", {"property": "C13", "kind": "lex", "finding": f})
                print("VIOLATION property=C13 replay=%s" % p)
                vlib.log("  %s %s(%r): want %r got %r" % (f["os"], f["fn"], f["in"], f["want"], f["got"]))
        vlib.write_evidence("C13", tier, seed, "model_checking", cov, time.time() - t0, violations=len(viol),
                            assumptions=["alphabet {a,b,C,.,/,\\\\,:,?,*,-}; Windows domain: no leading double separator (UNC/device paths), drive = letter + ':'",
                                         "Windows two-argument functions (Join, Rel, Match) are compared with the toolchain's Windows code retargeted to this host, not with Lex.tla"])
        return 1 if viol else 0
    finally:
        sc.cleanup()
