"""Orchestration helpers shared by all checks: scratch directories, driver builds, TLC runs,
sharded replays, evidence files. Every verdict about avfs is taken from real-code behaviour;
infrastructure trouble (timeouts, crashes, spec/kernel disagreement) exits 2, never 1."""
import json, os, re, shutil, subprocess, sys, tempfile, time, hashlib, glob

VERIF = os.path.dirname(os.path.dirname(os.path.abspath(__file__)))
REPO = os.environ.get("VERIF_REPO", "/repo")
JAR = "/opt/veriftools/tla/tla2tools.jar"
CM = "/opt/veriftools/tla/CommunityModules-deps.jar"
NCPU = os.cpu_count() or 4

GOENV = dict(os.environ, GOFLAGS="-mod=mod", GOPROXY="off", GOSUMDB="off", GOTOOLCHAIN="local",
             CGO_ENABLED=os.environ.get("CGO_ENABLED", "1"))


class Infra(Exception):
    """An infrastructure problem: exit 2, no verdict."""


def log(*a):
    print(*a, file=sys.stderr, flush=True)


class Scratch:
    """A per-run scratch directory on tmpfs, removed on exit."""

    def __init__(self, tag):
        base = "/dev/shm" if os.path.isdir("/dev/shm") else tempfile.gettempdir()
        self.dir = tempfile.mkdtemp(prefix="verif-%s-" % tag, dir=base)
        os.makedirs(os.path.join(self.dir, "jails"), exist_ok=True)

    def path(self, *p):
        return os.path.join(self.dir, *p)

    def cleanup(self):
        shutil.rmtree(self.dir, ignore_errors=True)


def build_driver(scratch, tags="verif", race=False):
    """Builds the Go driver from /repo's current working tree (replace directive) with the hooks on."""
    out = scratch.path("drive" + ("-race" if race else "") + "-" + tags.replace(" ", "_"))
    if os.path.exists(out):
        return out
    if not os.path.exists(os.path.join(VERIF, "harness", "winref", "winref_gen.go")):
        # the Windows comparator of C13 is generated from the toolchain sources, not kept in the repository
        subprocess.run([sys.executable, os.path.join(VERIF, "lib", "genwinref.py")], check=True, env=GOENV)
    cmd = ["go", "build", "-tags", tags, "-o", out]
    if race:
        cmd.insert(2, "-race")
    cmd.append("./cmd/drive")
    env = dict(GOENV)
    r = subprocess.run(cmd, cwd=os.path.join(VERIF, "harness"), env=env, capture_output=True, text=True)
    if r.returncode != 0:
        raise Infra("driver build failed:\n" + r.stdout + r.stderr)
    return out


def run_tlc(scratch, module, cfg, env=None, workers=None, heap="6g", timeout=900, extra=None, name=None):
    """Runs TLC on spec/<module>.tla with spec/<cfg> in a scratch copy. Returns dict(out, generated,
    distinct, depth, ok, violated)."""
    name = name or module
    wd = scratch.path("tlc-" + name)
    os.makedirs(wd, exist_ok=True)
    rr = run_tlc_in(wd, module, cfg, env=env, workers=workers, heap=heap, timeout=timeout, extra=extra)
    out = rr["out"]
    res = {"out": out, "rc": rr["rc"], "wall": rr["wall"], "generated": 0, "distinct": 0, "depth": 0}
    m = re.search(r"(\d+) states generated, (\d+) distinct states found", out)
    if m:
        res["generated"], res["distinct"] = int(m.group(1)), int(m.group(2))
    m = re.search(r"depth of the complete state graph search is (\d+)", out)
    if m:
        res["depth"] = int(m.group(1))
    res["ok"] = "Model checking completed. No error has been found." in out
    res["violated"] = bool(re.search(r"Error: (Invariant|Action property|Temporal|Deadlock)|is violated|Deadlock reached", out))
    if not res["ok"] and not res["violated"]:
        raise Infra("TLC failed on %s/%s (rc=%d):\n%s" % (module, cfg, rr["rc"], out[-4000:]))
    return res


def replay(scratch, drive, target, edges, names="a,b", nshard=None, timeout=1800):
    """Replays an edge file on one target. The in-memory targets run in ONE driver process with a pool of
    goroutines (the alternative outcomes of the deviation catalogue are indexed once); the kernel target
    changes process-wide state and runs as parallel processes, each taking every n-th line.
    Returns (stats dict, list of non-conforming EdgeResult dicts)."""
    nshard = (nshard or NCPU) if target == "osfs" else 1
    procs = []
    for k in range(nshard):
        out = scratch.path("res-%s-%s-%d.ndjson" % (os.path.basename(edges), target, k))
        env = dict(os.environ, VERIF_JAILBASE=scratch.path("jails"))
        p = subprocess.Popen([drive, "replay", "-target", target, "-edges", edges, "-out", out,
                              "-shard", str(k), "-nshard", str(nshard), "-names", names, "-workers", str(NCPU)],
                             stdout=subprocess.PIPE, stderr=subprocess.PIPE, text=True, env=env)
        procs.append((p, out))
    stats = {"Edges": 0, "OK": 0, "Mismatch": 0, "Unreach": 0, "Skipped": 0, "Built": 0, "Explained": 0, "Corrupt": 0, "Kf": {}}
    bad = []
    deadline = time.time() + timeout
    for p, out in procs:
        try:
            so, se = p.communicate(timeout=max(1, deadline - time.time()))
        except subprocess.TimeoutExpired:
            for q, _ in procs:
                q.kill()
            raise Infra("replay timeout on target " + target)
        if p.returncode != 0:
            raise Infra("driver failed on target %s: %s" % (target, se[-3000:]))
        st = json.loads(so.strip().splitlines()[-1])["stats"]
        for k2 in stats:
            if k2 == "Kf":
                for kk, vv in (st.get("Kf") or {}).items():
                    stats["Kf"][kk] = stats["Kf"].get(kk, 0) + vv
            else:
                stats[k2] += st.get(k2, 0)
        with open(out) as f:
            for line in f:
                bad.append(json.loads(line))
    stats["Corrupt"] //= max(1, nshard)      # every process reads (and counts) the whole file
    if stats["Corrupt"] * 200 > max(1, stats["Edges"]):
        raise Infra("%d of the lines TLC emitted are damaged (concurrent appends of long lines)" % stats["Corrupt"])
    return stats, bad


def write_evidence(pid, tier, seed, level, coverage, wall, violations=0, assumptions=None):
    ev = {"property_id": pid, "tier": tier, "seed": seed, "level": level, "coverage": coverage,
          "assumptions": assumptions or [], "wall_s": round(wall, 2), "violations": violations}
    os.makedirs(os.path.join(VERIF, "evidence"), exist_ok=True)
    with open(os.path.join(VERIF, "evidence", pid + ".json"), "w") as f:
        json.dump(ev, f, indent=1, sort_keys=True)
        f.write("\n")


def save_replay(pid, obj):
    d = os.path.join(VERIF, "replays", pid)
    os.makedirs(d, exist_ok=True)
    s = json.dumps(obj, sort_keys=True)
    p = os.path.join(d, hashlib.sha1(s.encode()).hexdigest()[:12] + ".json")
    with open(p, "w") as f:
        f.write(json.dumps(obj, indent=1, sort_keys=True) + "\n")
    return p


def load_findings():
    with open(os.path.join(VERIF, "known_findings.json")) as f:
        return json.load(f)


def write_kfopen(wd, findings=None):
    """Generates KfOpen.tla (the set of OPEN finding ids) from known_findings.json into a TLC work dir."""
    findings = findings if findings is not None else load_findings()
    ids = sorted(f["id"] for f in findings["findings"] if f["status"] == "open")
    with open(os.path.join(wd, "KfOpen.tla"), "w") as f:
        f.write("------------------------------- MODULE KfOpen -------------------------------\n")
        f.write("OpenKF == {%s}\n" % ", ".join('"%s"' % i for i in ids))
        f.write("=============================================================================\n")
    return ids


def validate_traces(scratch, impl, events, name="trace", timeout=900, module="MCtrace", cfg="FsTrace.cfg"):
    """Validates recorded implementation events (list of dicts, traces concatenated; i == 1 starts a
    trace) against FsTrace. Returns dict(kf_used, unexplained [(tr, i)], judged, skipped)."""
    if not events:
        return {"kf_used": [], "unexplained": [], "judged": 0, "skipped": 0, "wall": 0.0}
    tf = scratch.path("%s-%s.ndjson" % (name, impl))
    with open(tf, "w") as f:
        for ev in events:
            f.write(json.dumps(ev, separators=(",", ":")) + "\n")
        if module == "MCtrace":
            # sentinel: starts a (never judged) new trace so that the last real trace is closed
            end = json.loads(json.dumps(events[0]))
            end.update({"tr": "__end", "i": 1})
            end["call"] = dict(end["call"], op="wrap", flag=["none"])
            f.write(json.dumps(end, separators=(",", ":")) + "\n")
    wd = scratch.path("tlc-" + name + "-" + impl)
    os.makedirs(wd, exist_ok=True)
    r = run_tlc_in(wd, module, cfg, env={"VERIF_TRACE": tf, "VERIF_IMPL": impl}, workers=1, timeout=timeout)
    out = r["out"]
    if "HIGHWATER" not in out:
        raise Infra("trace validation produced no verdict:\n" + out[-4000:])
    m = re.search(r'<<\s*"JUDGED",\s*(\d+),\s*"SKIPPED",\s*(\d+),\s*"HIGHWATER",\s*(\d+),\s*"LEN",\s*(\d+)\s*>>', out)
    if not m or m.group(3) != m.group(4):
        raise Infra("trace validation did not consume the whole trace:\n" + out[-4000:])
    kf = re.search(r'<<\s*"KFUSED",\s*\{(.*?)\}\s*>>', out, re.S)
    un = re.search(r'<<\s*"UNEXPLAINED",\s*\{(.*?)\}\s*>>', out, re.S)
    kf_used = sorted({x for lab in (re.findall(r'"([^"]+)"', kf.group(1)) if kf else []) for x in lab.split("+")})
    unexplained = [(a, int(b)) for a, b in re.findall(r'<<\s*"([^"]+)",\s*(\d+)\s*>>', un.group(1))] if un else []
    judged = int(m.group(1)) - (1 if module == "MCtrace" else 0)
    return {"kf_used": kf_used, "unexplained": unexplained, "judged": judged, "skipped": int(m.group(2)),
            "wall": r["wall"]}


def run_tlc_in(wd, module, cfg, env=None, workers=None, heap="6g", timeout=900, extra=None):
    for f in glob.glob(os.path.join(VERIF, "spec", "*.tla")) + glob.glob(os.path.join(VERIF, "spec", "*.cfg")):
        shutil.copy(f, wd)
    write_kfopen(wd)
    jtmp = os.path.join(wd, "jtmp")     # TLC unpacks its module jars into java.io.tmpdir and leaves them behind
    os.makedirs(jtmp, exist_ok=True)
    cmd = ["java", "-XX:+UseParallelGC", "-Xmx" + heap, "-Xss512m", "-Djava.io.tmpdir=" + jtmp, "-cp", JAR + ":" + CM, "tlc2.TLC",
           "-workers", str(workers or NCPU), "-maxSetSize", "20000000", "-metadir", os.path.join(wd, "meta"), "-config", cfg]
    if extra:
        cmd += extra
    cmd.append(module + ".tla")
    e = dict(os.environ)
    e.pop("JAVA_TOOL_OPTIONS", None)
    if env:
        e.update({k: str(v) for k, v in env.items()})
    t0 = time.time()
    try:
        r = subprocess.run(cmd, cwd=wd, env=e, capture_output=True, text=True, timeout=timeout)
    except subprocess.TimeoutExpired:
        subprocess.run(["pkill", "-f", "tlc2.TL[C].*" + wd], check=False)
        raise Infra("TLC timeout on %s/%s after %ds" % (module, cfg, timeout))
    return {"out": r.stdout + r.stderr, "rc": r.returncode, "wall": time.time() - t0}


def parse_path(s):
    if isinstance(s, dict):
        return s
    p = {"abs": s.startswith("/"), "parts": [x for x in s.strip("/").split("/")] if s.strip("/") else []}
    if s and not s.startswith("/"):
        p["parts"] = s.split("/")
    return p


def mkcall(op, p="", q="", flag=None, perm=0, data=None, n=0, off=0, wh=0, h=0, uid=0, gid=0, v=0):
    return {"op": op, "v": v, "p": parse_path(p), "q": parse_path(q), "flag": flag or [], "perm": perm,
            "data": data or [], "n": n, "off": off, "wh": wh, "h": h, "uid": uid, "gid": gid}
