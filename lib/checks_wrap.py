"""C09 (RoFS) - and the shared machinery for wrapper properties: WrapSpec generates (base tree, wrapper
history, call) transitions, the driver replays them through the real wrapper around a real base while
projecting the BASE, TLC trace validation (FsTrace in wrapper mode) judges what does not conform."""
import json, time
import nscheck, vlib
from vlib import Infra


def wrap_run(pid, tier, seed, kinds, targets, buildlen, wraplen, extra_env=None):
    run = nscheck.NsRun(pid, tier, seed)
    run.build()
    return wrap_into(run, kinds, targets, buildlen, wraplen, extra_env)


def wrap_into(run, kinds, targets, buildlen, wraplen, extra_env=None):
    for kind in kinds:
        for target in targets:
            if target == "orefafs" and kind.endswith("-sym"):
                continue
            edges = run.sc.path("wrap-%s-%s.ndjson" % (kind, target))
            r = vlib.run_tlc(run.sc, "MCwrap", "MCwrap.cfg", name="wrap-%s-%s" % (kind, target), timeout=3000, heap="12g",
                             env=dict({"VERIF_KIND": kind, "VERIF_BUILDLEN": buildlen, "VERIF_WRAPLEN": wraplen,
                                       "VERIF_EDGES": edges, "VERIF_IMPL": target}, **(extra_env or {})))
            if not r["ok"]:
                raise Infra("the wrapper specification violates its own properties (%s):\n%s" % (kind, r["out"][-3000:]))
            run.cov["states"] += r["distinct"]
            run.cov["transitions"] += r["generated"]
            run.cov["tlc_runs"].append({"model": "WrapSpec", "kind": kind, "base": target, "build_len": buildlen,
                                        "wrapper_calls": wraplen, "generated": r["generated"], "distinct": r["distinct"],
                                        "checked": ["RoNeverChangesBase", "RoRefusesMutators", "InjectedIsReturned", "BpConfines", "SubConfines"]})
            run.replay(edges, target, names="a,b,B,f,s" if kind in ("basepath", "sub") else "a,b")
            if not run.cov["samples"]:
                with open(edges) as f:
                    for i, line in enumerate(f):
                        e = json.loads(json.loads(line)) if i >= 1000 else {"t": "alt"}
                        if e.get("t") != "alt":
                            run.cov["samples"].append({"base_built_by": [c["op"] + " " + nscheck.P(c["p"]) for c in e["hist"]],
                                                       "through": e["wrap"], "earlier": [c["op"] for c in e["wh"]],
                                                       "call": e["call"]["op"] + " " + nscheck.P(e["call"]["p"]),
                                                       "expected": e["res"]["err"]})
                            break
    return run


def check_c09(tier, seed):
    q = tier == "quick"
    run = wrap_run("C09", tier, seed, ["rofs", "rofs-sym"] if q else ["rofs", "rofs-sym"], ["memfs", "orefafs"],
                   2 if q else 3, 2 if q else 3)
    try:
        run.cov["exhaustive"] = True
        run.cov["universe"] = "base trees built by <=%d elementary calls over names {a,b}; <=%d calls through RoFS incl. handle methods on files it returns and Sub+mutator" % ((2, 2) if q else (3, 3))
        return nscheck.finish(run, "C09", extra_assumptions=["modification times are compared through a digest of every ModTime of the base tree logged around every wrapper call"])
    finally:
        run.close()


def check_c12(tier, seed):
    q = tier == "quick"
    # (two base-building calls x three wrapper calls x 61 plans is 15 GB of transitions: the thorough tier deepens the base)
    run = wrap_run("C12", tier, seed, ["failfs", "failro"], ["memfs", "orefafs"], 1 if q else 2, 2)
    try:
        run.cov["exhaustive"] = True
        run.cov["universe"] = "base trees built by <=%d elementary calls; plans: none, ReadOnlyFunc, and 'the 1st/2nd consultation of F fails' for 30 primitives F; <=%d calls through the wrapper, each consulting the planned primitive until the plan fires" % ((1, 2) if q else (2, 2))
        return nscheck.finish(run, "C12", extra_assumptions=["the injected error is a sentinel; the sequence of consulted primitives of every call is logged by the failure function and must equal the specification's"])
    finally:
        run.close()


def check_c10(tier, seed):
    q = tier == "quick"
    run = wrap_run("C10", tier, seed, ["basepath"], ["memfs", "orefafs"], 0, 1 if q else 2)
    try:
        run.cov["exhaustive"] = True
        run.cov["universe"] = "BasePathFS at /w/B over a base with a directory and a file inside B and a sentinel file and directory outside; " \
                              "125 path strings (absolute and relative, 1-4 components from {a,f,b,.,..,B,s,w}) x 20 call templates; " \
                              "%d consecutive wrapper calls (Chdir in the history)" % (1 if q else 2)
        return nscheck.finish(run, "C10", extra_assumptions=["no symbolic links in the base (BasePathFS does not advertise them)",
                                                              "every string returned or embedded in an error is scanned for the base path"])
    finally:
        run.close()


def check_c11(tier, seed):
    q = tier == "quick"
    run = wrap_run("C11", tier, seed, ["sub"], ["memfs"], 0, 2, extra_env=None if q else {"VERIF_SUBALL": "1"})
    try:
        run.cov["exhaustive"] = True
        run.cov["universe"] = "MemFS.Sub at /w/B%s over the C10 base tree; the C10 path strings and call templates plus SetUMask through the view; " \
                              "2 consecutive calls through the view (Chdir / SetUMask, then any call); after every call the parent's tree, " \
                              "working directory and umask are compared" % ("" if q else ", /w and /")
        return nscheck.finish(run, "C11", extra_assumptions=["symlink-free trees, as the property states", "SetUser through the view is exercised by C03's runs"])
    finally:
        run.close()
