"""The namespace family of checks (C01, C04, C05 and the sequential part of C07 share it):
TLC generates every transition of a bounded universe -> replay on the kernel (keeps the spec honest),
on MemFS and on OrefaFS -> every non-conforming step goes to trace validation, where TLC accepts it
only if an OPEN deviation of the catalogue reproduces it exactly.  Long random histories (generated
while running on the kernel) go straight to trace validation on all three targets."""
import json, os, subprocess, time, collections
import vlib
from vlib import Infra, log


def P(p):
    return ("/" if p["abs"] else "") + "/".join(p["parts"])


def brief(ev):
    c = ev["call"]
    s = "%s %s" % (c["op"], P(c["p"]))
    if c["op"] in ("rename", "link", "symlink"):
        s += " " + P(c["q"])
    if c["flag"]:
        s += " " + "|".join(c["flag"])
    return s + " -> " + ev["res"]["err"]


def c05_reasons(prev_post, ev):
    """Which clauses of C05 (well-formed tree, exact link counts, failed call changes nothing) the
    recorded step breaks by itself - independent of what Linux would have answered."""
    why = []
    if ev.get("inv", "ok") != "ok":
        why.append("internal invariant: " + ev["inv"])
    if not ev.get("srt", True):
        why.append("a listing is not sorted / duplicate free")
    for e in ev["post"]:
        if e["k"] in ("GHOST", "HIDDEN", "CYCLE", "ERR", "TYPE-MISMATCH", "SIZE-MISMATCH", "PANIC") or \
           e["k"].startswith("READ"):
            why.append("%s at /%s" % (e["k"], "/".join(e["p"])))
        if e["k"] == "file" and e["nl"] != len(e["same"]):
            why.append("Nlink %d but %d paths are SameFile at /%s" % (e["nl"], len(e["same"]), "/".join(e["p"])))
    bypath = {"/".join(e["p"]): e for e in ev["post"]}
    for e in ev["post"]:
        if e["k"] == "file":
            for q in e["same"]:
                o = bypath.get("/".join(q))
                if o and (o["d"] != e["d"] or o["m"] != e["m"] or o["u"] != e["u"] or o["g"] != e["g"]):
                    why.append("hard links /%s and /%s differ" % ("/".join(e["p"]), "/".join(q)))
    if ev["res"]["err"] not in ("ok", "EOF") and ev["call"]["op"] not in ("removeall", "mkdirall") and prev_post is not None:
        if canon(prev_post) != canon(ev["post"]) and ev["res"]["err"] not in ("PANIC", "DEADLOCK", "DEAD", "HANG"):
            why.append("a failed call changed the tree")
    if ev["res"]["err"] in ("PANIC", "DEADLOCK", "HANG"):
        pass  # C07's business
    return why


def canon(post):
    return sorted(json.dumps(e, sort_keys=True) for e in post)


class NsRun:
    def __init__(self, pid, tier, seed):
        self.pid, self.tier, self.seed = pid, tier, seed
        self.sc = vlib.Scratch(pid)
        self.t0 = time.time()
        self.drive = None
        self.cov = {"states": 0, "transitions": 0, "traces_validated_against_impl": 0, "edges_replayed": {},
                    "edges_conforming": {}, "kernel_edges_confirming_spec": 0, "random_events": {},
                    "deviations_used": [], "samples": [], "tlc_runs": []}
        self.unexplained = []     # (target, trace events up to the failing one, why)
        self.kf_used = set()
        self.spec_mismatch = []
        self.only = None          # when set: only the non-conforming steps it accepts are judged (C07)

    def close(self):
        self.sc.cleanup()

    def build(self):
        self.drive = vlib.build_driver(self.sc)

    def generate(self, profile, maxlen, name, names3=False, workers=None, impl=None):
        edges = self.sc.path("edges-%s.ndjson" % name)
        env = {"VERIF_MAXLEN": maxlen, "VERIF_PROFILE": profile, "VERIF_EDGES": edges}
        if names3:
            env["VERIF_NAMES"] = "3"
        r = vlib.run_tlc(self.sc, "MCns", "MCns.cfg", name="gen-" + name, env=env, timeout=3000, heap="12g", workers=workers)
        if not r["ok"]:
            raise Infra("the reference specification violates its own invariants (%s L=%s):\n%s" %
                        (profile, maxlen, r["out"][-3000:]))
        self.cov["states"] += r["distinct"]
        self.cov["transitions"] += r["generated"]
        self.cov["tlc_runs"].append({"profile": profile, "maxlen": maxlen, "generated": r["generated"],
                                     "distinct": r["distinct"], "wall_s": round(r["wall"], 1),
                                     "checked": ["TreeWellFormed", "FailedCallChangesNothing", "SuccessIsLocal"]})
        return edges

    def replay(self, edges, target, names="a,b"):
        st, bad = vlib.replay(self.sc, self.drive, target, edges, names=names)
        key = target
        self.cov["edges_replayed"][key] = self.cov["edges_replayed"].get(key, 0) + st["Edges"] - st["Skipped"]
        self.cov["edges_conforming"][key] = self.cov["edges_conforming"].get(key, 0) + st["OK"]
        if st.get("Explained"):
            ex = self.cov.setdefault("edges_equal_to_an_open_deviation_outcome", {})
            ex[key] = ex.get(key, 0) + st["Explained"]
            self.kf_used |= {x for lab in st["Kf"] for x in lab.split("+")}
        if target == "osfs":
            # a kernel step that differs from the canonical outcome may still be one of the admissible strict
            # outcomes (directory batch order, the closed-handle corner): TLC decides with impl = "osfs"
            traces = [b["trace"] for b in bad if b.get("trace")]
            evs = [e for tr in traces for e in tr]
            nun = 0
            if evs:
                v = vlib.validate_traces(self.sc, "osfs", evs, name="osfsval%d" % len(self.cov["tlc_runs"]))
                un = set(v["unexplained"])
                for tr in traces:
                    for k, e in enumerate(tr):
                        if (e["tr"], e["i"]) in un:
                            nun += 1
                            if len(self.spec_mismatch) < 5:
                                self.spec_mismatch.append("; ".join(brief(x) for x in tr[:k + 1]))
                            break
            self.cov["kernel_edges_confirming_spec"] += st["OK"] + len(traces) - nun
            return
        traces = [b["trace"] for b in bad if b.get("trace")]
        if self.only:
            traces = [t for t in traces if self.only(t)]
        self.cov.setdefault("edges_with_unreachable_source_state", {})
        self.cov["edges_with_unreachable_source_state"][target] = self.cov["edges_with_unreachable_source_state"].get(target, 0) + st["Unreach"]
        self.judge(target, traces)

    def judge(self, target, traces):
        """Trace validation of recorded traces (each a list of events starting with i == 1)."""
        evs = [e for tr in traces for e in tr]
        if not evs:
            return
        # (memfs-d-win is the Windows-typed MemFS working in an added volume: the same implementation)
        impl = "memfs-win" if target == "memfs-d-win" else target
        v = vlib.validate_traces(self.sc, impl, evs, name="val%d" % len(self.cov["tlc_runs"]))
        self.cov["tlc_runs"].append({"trace_validation": target, "events": len(evs), "judged": v["judged"],
                                     "skipped_after_unexplained": v["skipped"], "wall_s": round(v["wall"], 1)})
        self.cov["traces_validated_against_impl"] += len(traces)
        self.kf_used |= set(v["kf_used"])
        un = set(v["unexplained"])
        for tr in traces:
            for k, e in enumerate(tr):
                if (e["tr"], e["i"]) in un:
                    self.unexplained.append((target, tr[:k + 1]))
                    break

    def random(self, nplans, length, sym=True, own=True, names="a,b,c", depth=3, seed=None, handles=False, perm=False,
               targets=("memfs", "orefafs")):
        seed = self.seed if seed is None else seed
        plans = self.sc.path("plans-%d.ndjson" % seed)
        otrace = self.sc.path("osfs-%d.trace" % seed)
        env = dict(os.environ, VERIF_JAILBASE=self.sc.path("jails"))
        cmd = [self.drive, "random", "-target", "osfs", "-seed", str(seed), "-n", str(nplans), "-len", str(length),
               "-names", names, "-depth", str(depth), "-plans", plans, "-trace", otrace]
        if sym:
            cmd.append("-sym")
        if own:
            cmd.append("-own")
        if handles:
            cmd.append("-handles")
        if perm:
            cmd.append("-perm")
        r = subprocess.run(cmd, capture_output=True, text=True, env=env, timeout=1800)
        if r.returncode != 0:
            raise Infra("random generation failed: " + r.stderr[-2000:])
        oevs = [json.loads(l) for l in open(otrace)]
        v = vlib.validate_traces(self.sc, "osfs", oevs, name="osfs-rand-%d" % seed)
        self.cov["random_events"]["osfs"] = self.cov["random_events"].get("osfs", 0) + len(oevs)
        if v["unexplained"]:
            by = {(e["tr"], e["i"]): e for e in oevs}
            for k in v["unexplained"][:5]:
                ctx = [by[(k[0], i)] for i in range(max(1, k[1] - 7), k[1] + 1) if (k[0], i) in by]
                self.spec_mismatch.append("random plan %s step %d: " % k + " ; ".join(brief(e) for e in ctx))
        for target in targets:
            procs = []
            for k in range(vlib.NCPU):
                out = self.sc.path("%s-%d-%d.trace" % (target, seed, k))
                procs.append((subprocess.Popen([self.drive, "runplans", "-target", target, "-plans", plans, "-trace", out,
                                                "-names", names, "-shard", str(k), "-nshard", str(vlib.NCPU),
                                                "-unclean", str(seed + 1)],
                                               stdout=subprocess.PIPE, stderr=subprocess.PIPE, text=True), out))
            traces = []
            for p, out in procs:
                so, se = p.communicate(timeout=1800)
                if p.returncode != 0:
                    raise Infra("runplans failed on %s: %s" % (target, se[-2000:]))
                cur = []
                for line in open(out):
                    e = json.loads(line)
                    if e["i"] == 1 and cur:
                        traces.append(cur)
                        cur = []
                    cur.append(e)
                if cur:
                    traces.append(cur)
            n = sum(len(t) for t in traces)
            self.cov["random_events"][target] = self.cov["random_events"].get(target, 0) + n
            self.judge(target, traces)
        if not self.cov["samples"]:
            self.cov["samples"].append({"random_plan_prefix": [brief(e) for e in oevs[:12]]})


def finish(run, pid, classify=None, extra_assumptions=None, level="model_checking"):
    """Prints KNOWN-FINDING / VIOLATION lines, writes the evidence file, returns the exit code."""
    findings = vlib.load_findings()["findings"]
    if run.spec_mismatch:
        for m in run.spec_mismatch:
            print("SPEC-MISMATCH (the kernel disagrees with the specification; no verdict about avfs): " + m)
        return 2
    viol = []
    for target, tr in run.unexplained:
        ev = tr[-1]
        prev = tr[-2]["post"] if len(tr) > 1 else None
        reasons = c05_reasons(prev, ev)
        if classify and not classify(target, tr, reasons):
            continue
        viol.append((target, tr, reasons))
    for f in findings:
        if f["status"] == "open" and pid in f["properties"]:
            used = " (exercised in this run)" if f["id"] in run.kf_used else ""
            print("KNOWN-FINDING: property=%s %s %s%s" % (pid, f["id"], f["what"], used))
    seen = set()
    nv = 0
    for target, tr, reasons in viol:
        key = (target, brief(tr[-1]))
        if key in seen:
            continue
        seen.add(key)
        nv += 1
        if nv > 20:
            continue
        path = vlib.save_replay(pid, {"property": pid, "target": target, "kind": "trace",
                                      "calls": [e["call"] for e in tr], "observed": tr[-1]["res"],
                                      "observed_post": tr[-1]["post"], "inv": tr[-1].get("inv"),
                                      "c05_reasons": reasons,
                                      "summary": [brief(e) for e in tr]})
        print("VIOLATION property=%s replay=%s" % (pid, path))
        log("  on %s: %s %s" % (target, " ; ".join(brief(e) for e in tr[-3:]), reasons or ""))
    run.cov["deviations_used"] = sorted(run.kf_used)
    run.cov["unexplained_steps"] = len(viol)
    if not run.cov["samples"]:
        run.cov["samples"].append("no sample recorded")
    run.cov["traces_validated_against_impl"] = int(run.cov["traces_validated_against_impl"])
    vlib.write_evidence(pid, run.tier, run.seed, level, run.cov, time.time() - run.t0, violations=nv,
                        assumptions=(extra_assumptions or []) + [
                            "reference = Go os package on tmpfs inside a chroot jail (replayed on every run)",
                            "projection through the public API + verif-tagged structural checker",
                            "exhaustive only within the stated universe and history length"])
    return 1 if nv else 0
