"""bin/check replay <file>: re-executes a recorded counterexample against the current tree."""
import json, os, subprocess
import vlib, nscheck


def run(path):
    rp = json.load(open(path))
    sc = vlib.Scratch("replay")
    try:
        if rp.get("kind") == "trace":
            drive = vlib.build_driver(sc)
            plans = sc.path("plan.ndjson")
            with open(plans, "w") as f:
                f.write(json.dumps({"name": "replay", "calls": rp["calls"]}) + "\n")
            out = sc.path("out.trace")
            env = dict(os.environ, VERIF_JAILBASE=sc.path("jails"))
            r = subprocess.run([drive, "runplans", "-target", rp["target"], "-plans", plans, "-trace", out],
                               capture_output=True, text=True, env=env)
            if r.returncode != 0:
                print("INFRA: " + r.stderr)
                return 2
            evs = [json.loads(l) for l in open(out)]
            for e in evs:
                print("  " + nscheck.brief(e) + ("" if e["inv"] == "ok" else "   [" + e["inv"] + "]"))
            v = vlib.validate_traces(sc, rp["target"], evs, name="replay")
            if v["unexplained"]:
                print("VIOLATION property=%s replay=%s" % (rp["property"], path))
                return 1
            print("the recorded behaviour no longer occurs (deviations used: %s)" % v["kf_used"])
            return 0
        print("unknown replay kind")
        return 2
    finally:
        sc.cleanup()
