"""bin/check replay <file>: re-executes a recorded counterexample against the current tree."""
import json, os, subprocess
import vlib, nscheck


def run(path):
    rp = json.load(open(path))
    sc = vlib.Scratch("replay")
    try:
        if rp.get("kind") == "trace":
            drive = vlib.build_driver(sc)
            plans = sc.path("plan.ndjson")
            with open(plans, "w") as f:
                f.write(json.dumps({"name": "replay", "calls": rp["calls"]}) + "\n")
            out = sc.path("out.trace")
            env = dict(os.environ, VERIF_JAILBASE=sc.path("jails"))
            r = subprocess.run([drive, "runplans", "-target", rp["target"], "-plans", plans, "-trace", out],
                               capture_output=True, text=True, env=env)
            if r.returncode != 0:
                print("INFRA: " + r.stderr)
                return 2
            evs = [json.loads(l) for l in open(out)]
            for e in evs:
                print("  " + nscheck.brief(e) + ("" if e["inv"] == "ok" else "   [" + e["inv"] + "]"))
            v = vlib.validate_traces(sc, rp["target"], evs, name="replay")
            if v["unexplained"]:
                print("VIOLATION property=%s replay=%s" % (rp["property"], path))
                return 1
            print("the recorded behaviour no longer occurs (deviations used: %s)" % v["kf_used"])
            return 0
        if rp.get("kind") == "history" and rp.get("history", {}).get("calls"):
            # a recorded concurrent execution: the program again under the recorded schedule (or free running, 200
            # times, when it was recorded that way), every history observed judged by TLC (Lin.tla)
            import checks_conc
            drive = vlib.build_driver(sc)
            hf, of = sc.path("h.json"), sc.path("o.ndjson")
            json.dump(rp["history"], open(hf, "w"))
            r = subprocess.run([drive, "schedreplay", "-history", hf, "-out", of], capture_output=True, text=True)
            if r.returncode != 0:
                print("INFRA: " + r.stderr[-2000:])
                return 2
            hs = [json.loads(l) for l in open(of)]
            for i, h in enumerate(hs):
                h["id"] = i + 1
                print("  " + checks_conc.hbrief(h) + ("" if h["inv"] == "ok" else "   [" + h["inv"] + "]") +
                      ("   DEADLOCK" if h["deadlock"] else "") + ("   PANIC" if h["panic"] else ""))
            target = rp["history"]["fs"]
            nl, _ = checks_conc.judge_lin(sc, target, hs, "replay")
            kfs = checks_conc.open_conc("C06", "lin")
            bad = [h for h in hs if h["deadlock"] or h["panic"] or h.get("tmpdup") or
                   (h["id"] in nl and not checks_conc.match_lin(h, kfs))]
            if bad:
                print("VIOLATION property=%s replay=%s" % (rp["property"], path))
                return 1
            print("the recorded behaviour no longer occurs (%d histories observed, all linearizable)" % len(hs))
            return 0
        # every other kind comes from a deterministic universe: the owning check is run again (quick tier) and the
        # recorded violation counts as reproduced when a violation with the same summary is reported
        import registry, io, contextlib, glob
        pid = rp["property"]
        buf = io.StringIO()
        with contextlib.redirect_stdout(buf):
            rc = registry.CHECKS[pid]("quick", int(os.environ.get("VERIF_SEED", "1") or "1"))
        # replay files are named after their content: the same violation is written to the same file again
        again = ("replay=" + os.path.abspath(path)) in buf.getvalue()
        if rc == 2:
            print(buf.getvalue()[-3000:])
            return 2
        if again:
            print("VIOLATION property=%s replay=%s" % (pid, path))
            return 1
        print("the recorded behaviour is not reported by the quick tier of %s any more (exit %d of that run)" % (pid, rc))
        return 0
    finally:
        sc.cleanup()
