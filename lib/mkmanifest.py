"""Writes MANIFEST.json from the table below (single source of truth for the registered checks)."""
import json, os, subprocess
V = os.path.dirname(os.path.dirname(os.path.abspath(__file__)))

BASELINE_OFF = ("cd /repo && GOFLAGS=-mod=mod GOPROXY=off go test -json -vet=off -count=1 -timeout 25m ./...")

CHECKS = {
    "C01": dict(cat="model_checking", design="DESIGN.md section 8 C01",
                technique="TLA+ FS spec (FsCore/FsHandles): TLC bounded-exhaustive edge generation replayed on MemFS/OrefaFS + TLC trace validation (FsTrace with deviation catalogue FsDev); spec itself validated against Go os on tmpfs",
                text="Every transition of the bounded universe (all call templates x all states reachable in <=3 (quick) / <=4 (thorough) calls over names {a,b}, depth 2, incl. root/ancestor/identical operands) is computed by TLC from the explicit TLA+ specification and replayed on the real MemFS and OrefaFS; result, full tree and internal checker verdict must equal the specification's successor, otherwise the recorded step goes to TLC trace validation where only an open, exact deviation operator can explain it. Long random histories (3 names, depth 3, unclean spellings) are trace-validated on all targets. The specification is re-validated against the kernel (osfs in a chroot on tmpfs) on the same edges and plans in the same run.",
                note="Trusted: TLC, the projection (public API + verif-tagged checker), Go os on tmpfs as the Linux reference. Exhaustive only inside the stated universe; set-gid directories, removal of the working directory and calls naming OrefaFS' root are outside the generated universe (DESIGN.md)."),
    "C02": dict(cat="model_checking", design="DESIGN.md section 8 C02",
                technique="TLA+ handle spec (FsHandles.tla: os.File semantics on handle records over the shared inode table): TLC bounded-exhaustive transitions replayed on MemFS/OrefaFS and on real *os.File (kernel), TLC trace validation with candidate-set tracking (hidden handle state) and deviation catalogue",
                text="FsHandles.tla specifies Read/ReadAt/Write/WriteAt/WriteString/Seek/Truncate/Stat/Sync/Chmod/Chown/Chdir/Close/ReadDir/Readdirnames on handle records (offset, access mode, append, directory snapshot) over the same inode table as the namespace calls, so unlinked-but-open inodes, hard links and several handles share one content. TLC enumerates every transition from every state reachable in <=3 (quick) / <=4 (thorough) calls from a 3-byte file: 36 open-flag combinations on two names and the directory, up to 2 simultaneous handles, lengths {0,1,3}, offsets {-1,0,size-1,size,size+2}, all whence values, path-level Truncate/Rename/Link/Remove/WriteFile interleaved; each is replayed on MemFS, OrefaFS and on os.File on tmpfs, comparing byte counts, bytes, offsets, error kinds, the content through every link and Stat through every handle after every step. Random 120-200 step histories with handle operations are trace-validated on all three. Trace validation carries the SET of specification states compatible with the observations, because a deviating open (access mode, append) is only observable later.",
                note="Trusted as C01. Directory offsets other than the rewind Seek(0,0) are not generated (opaque cookies on Linux); SEEK_DATA/SEEK_HOLE are not modelled."),
    "C04": dict(cat="model_checking", design="DESIGN.md section 8 C04",
                technique="TLA+ path resolution (FsCore!WalkS: stack-based walk with splice/restart, follow/no-follow per call, link budgets in the state): TLC enumerates configured initial states (all link graphs) x query paths x operations and budget chains; transitions replayed on MemFS and on the kernel; TLC trace validation with deviation catalogue",
                text="Profile symq: every link graph over 2 (quick) / 3 (thorough) names in /w - each name absent, a file, a directory or a symbolic link to a sibling name, ../w/name, /w/name, s/f, s/u or s, which yields self-loops, 2- and 3-cycles, dangling and chained links in final and intermediate position - next to a fixed directory /w/s holding a file and an upward link, crossed with every query path of up to 4 components through those names and 16 operations (Stat, Open, ReadFile, ReadDir, Chmod, Truncate, Mkdir-below, EvalSymlinks, Chdir follow; Lstat, Readlink, Remove, Rename, Lchown, Link do not). Profile symchain: chains of 1,2,39,40,41,64,65,255,256 links around the kernel's budget (40) and EvalSymlinks' (255). Plus the symlink-bearing histories of C01 (L<=2/3) and random histories. Every case runs on MemFS and on the kernel with identical absolute targets (chroot), results incl. the object reached (Stat info, content, EvalSymlinks path) and the whole tree are compared.",
                note="Readlink returns the cleaned target by the property's own definition; targets in the universe are clean."),
    "C05": dict(cat="model_checking", design="DESIGN.md section 8 C05",
                technique="TLC invariants/action properties (TreeWellFormed, FailedCallChangesNothing, SuccessIsLocal) on the FS spec graph + conformance of every real-code step (projection equality, verif-tagged node-graph checker) by edge replay and TLC trace validation",
                text="TLC checks the tree invariants and the two action properties on the reachable graph of the specification; they transfer to the code because every replayed edge and every validated trace step demands projection equality with a specification state satisfying them plus an 'ok' verdict of the internal node-graph checker (reference counts vs stored link counters, single parent, OrefaFS index == reachable). A step counts against C05 only if it breaks a C05 clause by itself (ghost/hidden entry, unsorted listing, Nlink != number of SameFile paths, diverging hard links, failed call that changed the tree, checker verdict).",
                note="As C01. Windows-typed instances are covered by C17's runs."),
    "C09": dict(cat="model_checking", design="DESIGN.md section 8 C09",
                technique="TLA+ wrapper spec (Wrappers.tla: RoOutcomes as a function of the base transition relation) with TLC action properties RoNeverChangesBase/RoRefusesMutators; TLC-generated (base tree, wrapper history, call) transitions replayed through the real RoFS around real MemFS/OrefaFS bases with the BASE projected and its modification times digested around every call; TLC trace validation in wrapper mode",
                text="WrapSpec builds every base tree reachable by <=2 (quick) / <=3 (thorough) elementary calls, wraps it, and issues every VFS method template (OpenFile with 10 flag sets, all mutators, all queries, Sub followed by a mutator through the result) and every File method on handles the wrapper returned, for up to 2 / 3 consecutive wrapper calls. TLC checks on the specification that the base projection never changes and every mutator is refused with a permission-class error, and emits each transition; the driver executes it through rofs.New(base) and compares result class, the complete projection of the base (tree, bytes, modes, owners) and a digest of every ModTime before and after. Non-conforming steps are judged by FsTrace in wrapper mode.",
                note="Trusted: the projection and the mtime digest (Lstat ModTime of every path). Read-only calls are expected to return what the base returns including the base's own catalogued deviations."),
    "C10": dict(cat="model_checking", design="DESIGN.md section 8 C10",
                technique="TLA+ BasePathFS spec (Wrappers.tla: virtual-namespace translation as a function of the base transition relation; TLC action property BpConfines: nothing outside B changes); TLC-generated (path string, call, history with Chdir) transitions replayed through the real BasePathFS with the WHOLE base projected; returned strings and error fields scanned for the base path; TLC trace validation with the deviation operator KF31",
                text="The specification interprets every path in the virtual namespace rooted at B (absolute paths cleaned with '..' clamped at the virtual root, relative paths taken from the virtual working directory) and gives the call the outcome and effect of the translated call on the base - i.e. the standalone reference file system of the property. TLC checks that no transition changes anything outside B and emits all transitions for 125 path strings (absolute/relative, '.', '..', the base's own names) x 20 call templates, 1 (quick) / 2 (thorough) consecutive wrapper calls so that Chdir precedes the call. The driver runs them through basepathfs.New(base, /w/B) over MemFS and OrefaFS, comparing result, the projection of the whole base (inside and outside B) and Getwd, and flags any returned path or PathError/LinkError field that contains the base path.",
                note="Relative paths are a known finding (KF31: handed to the base untranslated, panic when the call fails); the strict semantics stays the oracle, and edges whose source state is only reachable through the deviation are not explored further."),
    "C11": dict(cat="model_checking", design="DESIGN.md section 8 C11",
                technique="TLA+ Sub-view spec (Wrappers.tla: SubOutcomes = the parent's transition on dir+path under the view's own umask and working directory, view state separate from the parent's); TLC action property SubConfines; TLC-generated transitions replayed through real MemFS.Sub views with the PARENT's whole tree, working directory and umask observed after every call; TLC trace validation",
                text="A view is a wrapper state [dir, vcwd, umask] over the shared inode table: a call through it has the outcome and effect of the parent's call on dir+Clean(path) evaluated with the view's umask, Chdir/SetUMask through the view change only the view. TLC checks that nothing outside dir changes and that the parent's umask, working directory and user are untouched, and emits every transition for the C10 path universe and call templates plus the setters, two consecutive calls through the view (so a setter or Chdir precedes every call), for a view at /w/B (quick) and also at /w and / (thorough, 574k transitions). The driver executes them through vfs.Sub(dir) of a real MemFS, projects the parent's complete tree and logs the parent's Getwd and UMask after each call.",
                note="Symlink-free trees (the property's own restriction). Remove/RemoveAll/Rename of the view's own root are a recorded finding (KF32)."),
    "C12": dict(cat="model_checking", design="DESIGN.md section 8 C12",
                technique="TLA+ FailFS spec (Wrappers.tla: every wrapper call as a sequence of consulted primitives over the base transition relation, fault plan + counters as wrapper state) with TLC action properties; TLC enumerates (base tree, plan, wrapper history, call) transitions; replay through the real FailFS with a counting failure function; the logged consultation sequence must equal the specification's; TLC trace validation",
                text="Wrappers.tla gives each FailFS method its sequence of consulted FnVFS primitives (composites Create/WriteFile/ReadFile/ReadDir/MkdirTemp/CreateTemp/Sub+mutator step by step, with the partial effects that have happened when an inner primitive fails) as a function of the base transition relation. TLC checks that an injected failure is returned (exactly for single-primitive calls, some error for composites), that the base never changes under ReadOnlyFunc, and emits every transition for: no plan (transparency: results and tree equal the base's), ReadOnlyFunc, and every plan 'the 1st/2nd consultation of F fails' for 30 primitives. The driver executes them through failfs.New(base) on MemFS and OrefaFS bases; result, base projection, mtime digest (read-only plan) and the exact list of primitives consulted during the call are compared; non-conforming steps go to FsTrace in wrapper mode.",
                note="Trusted: the counting failure function of the driver. WalkDir and Glob through FailFS are covered by C14."),
    "C15": dict(cat="model_checking", design="DESIGN.md section 8 C15",
                technique="TLA+ MemIdm spec: TLC exhaustive graph with invariants + edge replay on real MemIdm; TLC model of the two-critical-section AddUser (MemIdmConc: map invariant + linearizability over all interleavings); recorded concurrent executions judged by TLC (IdmLin)",
                text="MemIdm.tla is shaped like the code (two map pairs, two counters, AddUser in two critical sections). TLC explores the complete reachable graph for a pool of 3 group and 3 user names with up to 3 (quick) / 4 (thorough) ids issued per kind, checking map agreement, id uniqueness, ids-never-reissued and admin-from-start, and emits every transition with the expected result and the complete lookup table; each is replayed on a real MemIdm and compared (all four lookups for every pool name and every id that can have been issued). Non-conforming steps are judged by TLC trace validation (IdmTrace). Concurrency: TLC checks MemIdmConc (2 and 3 processes, all call pairs/triples, three seeded initial states) for the map invariant in every interleaving and linearizability at termination; tens of thousands of free-running real executions with 2-4 goroutines are recorded and each distinct history is judged linearizable or not by TLC (IdmLin).",
                note="Trusted: TLC; the four lookups as the projection of the manager. The real concurrent executions are free running (schedules sampled by the Go scheduler, not enumerated)."),
    "C16": dict(cat="model_checking", design="DESIGN.md section 8 C16",
                technique="TLA+ Copy spec: reference algorithm checked against the contract by TLC for every size class and single-fault plan; TLC enumerates the plans; real runs through FailFS wrappers are recorded (sequence of consulted primitives + final observation) and judged by TLC (CopyJudge evaluates Copy!Contract on every run)",
                text="Copy.tla states the contract over a recorded run (nil error => destination bytes, permission bits and digest are the source's; any injected failure other than closing the source => non-nil error) and a reference algorithm as a step sequence over the primitives. TLC checks the reference against the contract for 3 functions x 6 size classes around the 32 KiB buffer x every plan 'k-th invocation of primitive F on side S fails' (177 cases, exhaustive) and emits them; the driver executes each case against the real code on 5 (quick) / 9 (thorough) pairs of file systems (MemFS, OrefaFS, OsFS) with counting FailFS wrappers on both sides, reads bytes and mode back from the base file systems, recomputes SHA-256, and TLC judges every recorded run against the contract. The order of consulted primitives is also compared with the reference model (fidelity report, not a verdict).",
                note="Trusted: FailFS's consult-then-forward (C12 checks it), SHA-256, TLC. One fault per run."),
    "C17": dict(cat="model_checking", design="DESIGN.md section 8 C17",
                technique="the same TLA+ FS specification instantiated for Windows-typed targets (errno abstracted to 'a Windows error value', modes/owners not compared): C01's TLC-generated transitions replayed on Windows-typed AND Linux-typed MemFS/OrefaFS built with avfs_setostype, TLC trace validation; Volumes.tla (TLC exhaustive, independence of volumes) replayed on MemFS",
                text="With the driver built with -tags 'verif avfs_setostype' (generic path functions), the bounded universe of C01 (L<=3 quick / L<=4 thorough, plus the symlink profile) is replayed with portable path builders (C:\\ + '\\'-joined components vs '/'-joined) on Windows-typed and Linux-typed MemFS and OrefaFS; both are judged against the same specification, so they agree call by call on success/failure and reach isomorphic trees (names, types, contents, link counts) unless an open deviation operator says otherwise; every failure of a Windows-typed instance must carry a Windows error value. OSType/PathSeparator/Features of freshly constructed instances are checked, and Volumes.tla (volume set, one independent root per volume, Linux-typed has none) is explored exhaustively for sequences of <=3/5 volume calls and replayed.",
                note="Chown/Lchown/Chmod/umask calls are not issued to Windows-typed instances (documented as OS specific). Needs the SetOSType repair (FX21)."),
}


def main():
    commits = subprocess.run(["git", "-C", "/repo", "log", "--format=%H %s"], capture_output=True, text=True).stdout.splitlines()
    hook_commits = [c.split()[0] for c in commits if " verif:" in c]
    checks = []
    for pid in sorted(CHECKS):
        c = CHECKS[pid]
        checks.append({
            "property_id": pid,
            "quick_cmd": "bin/check %s --tier quick" % pid,
            "thorough_cmd": "bin/check %s --tier thorough" % pid,
            "evidence_file": "/verif/evidence/%s.json" % pid,
            "replay_cmd_template": "bin/check replay {path}",
            "engine": "tla-conformance",
            "level_claimed": {"category": c["cat"], "text": c["text"], "design_ref": c["design"]},
            "level_note": c["note"],
            "technique": c["technique"],
        })
    props = [json.loads(l)["id"] for l in open(os.path.join(V, "properties.jsonl"))]
    na = []
    reasons = json.load(open(os.path.join(V, "lib", "not_applicable.json")))
    for p in props:
        if p not in CHECKS:
            na.append({"property_id": p, "reason": reasons.get(p, "check not built yet in this round; see DESIGN.md section 8 for the planned TLA+ model and binding")})
    m = {
        "version": 1,
        "setup_cmd": "bin/setup",
        "hooks": {"guard": "verif", "enable": "go build -tags verif (harness module with replace github.com/avfs/avfs => /repo)",
                  "baseline_off_cmd": BASELINE_OFF, "source_commits": hook_commits, "add_only": True},
        "engines": [{"name": "tla-conformance", "path": "/verif/spec + /verif/harness + /verif/lib",
                     "serves_properties": sorted(CHECKS),
                     "kind_free_text": "explicit TLA+ specification checked by TLC; conformance by replay of TLC-generated transitions into the real code and TLC validation of recorded implementation traces"}],
        "checks": checks,
        "not_applicable": na,
        "notes": "Exit 2 = infrastructure problem or spec/kernel disagreement (no verdict). known_findings.json lists open findings (KNOWN-FINDING lines) and fixed ones.",
    }
    json.dump(m, open(os.path.join(V, "MANIFEST.json"), "w"), indent=1)


if __name__ == "__main__":
    main()
