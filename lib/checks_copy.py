"""C16: CopyFile / CopyFileHash / HashFile under every single-fault plan (Copy.tla, CopySpec, CopyJudge)."""
import json, os, re, subprocess, time
import vlib
from vlib import Infra


def check_c16(tier, seed):
    t0 = time.time()
    sc = vlib.Scratch("C16")
    cov = {"samples": [], "tlc_runs": []}
    try:
        drive = vlib.build_driver(sc)
        plans = sc.path("copy-plans.ndjson")
        r = vlib.run_tlc(sc, "CopySpec", "CopySpec.cfg", env={"VERIF_EDGES": plans}, workers=4, timeout=600)
        if not r["ok"]:
            raise Infra("the reference copy algorithm violates the contract:\n" + r["out"][-3000:])
        nplans = sum(1 for _ in open(plans))
        cov["states"], cov["transitions"] = r["distinct"], r["generated"]
        cov["tlc_runs"].append({"model": "CopySpec", "plans": nplans, "checked": ["ReferenceSatisfiesContract"], "exhaustive": True})
        pairs = "memfs:memfs,memfs:orefafs,orefafs:memfs,osfs:memfs,memfs:osfs"
        if tier != "quick":
            pairs += ",orefafs:orefafs,osfs:osfs,osfs:orefafs,orefafs:osfs"
        runs = sc.path("copy-runs.ndjson")
        rr = subprocess.run([drive, "copyrun", "-plans", plans, "-out", runs, "-pairs", pairs, "-scratch", sc.dir],
                            capture_output=True, text=True, timeout=1800)
        if rr.returncode != 0:
            raise Infra("copyrun failed: " + rr.stderr[-2000:])
        wd = sc.path("tlc-copyjudge")
        os.makedirs(wd, exist_ok=True)
        j = vlib.run_tlc_in(wd, "CopyJudge", "CopyJudge.cfg", env={"VERIF_RUNS": runs}, workers=1, timeout=900)
        m = re.search(r'<<\s*"BAD",\s*\{(.*?)\}\s*>>', j["out"], re.S)
        m2 = re.search(r'<<\s*"RUNS",\s*(\d+)\s*>>', j["out"])
        m3 = re.search(r'<<\s*"ORDERDIFF",\s*(\d+)\s*>>', j["out"])
        if not (m and m2 and m3):
            raise Infra("CopyJudge gave no verdict:\n" + j["out"][-3000:])
        bad = [int(x) for x in re.findall(r"\d+", m.group(1))]
        allruns = {x["id"]: x for x in (json.loads(l) for l in open(runs))}
        cov["traces_validated_against_impl"] = int(m2.group(1))
        cov["runs_where_primitive_order_differs_from_reference_model"] = int(m3.group(1))
        cov["fs_pairs"] = pairs.split(",")
        cov["samples"].append({k: v for k, v in list(allruns.values())[37].items() if k != "consults"})
        cov["samples"].append({"consults_of_sample": [c["side"] + "." + c["fn"] + ("!" if c["failed"] else "") for c in list(allruns.values())[37]["consults"]]})
        cov["exhaustive"] = True
        for f in vlib.load_findings()["findings"]:
            if f["status"] == "open" and "C16" in f["properties"]:
                print("KNOWN-FINDING: property=C16 %s %s" % (f["id"], f["what"]))
        seen = set()
        nv = 0
        for i in bad:
            x = allruns[i]
            key = (x["variant"], json.dumps(x["plan"], sort_keys=True), x["errnil"])
            if key in seen:
                continue
            seen.add(key)
            nv += 1
            if nv <= 20:
                path = vlib.save_replay("C16", {"property": "C16", "kind": "copy", "run": x})
                print("VIOLATION property=C16 replay=%s" % path)
        vlib.write_evidence("C16", tier, seed, "fault_enumeration" if False else "model_checking", cov, time.time() - t0, violations=nv,
                            assumptions=["faults are injected through FailFS wrappers on either side; one fault per run",
                                         "sizes 0, 1, 32767, 32768(+1), 65536(+1), ... around the 32 KiB buffer"])
        return 1 if nv else 0
    finally:
        sc.cleanup()
